#!/usr/bin/env python3
"""Generates MANIFEST.json from the table below (kept in one place so it stays consistent)."""
import json, os, subprocess

ROOT = os.path.dirname(os.path.abspath(__file__))
LEVELS = json.load(open(os.path.join(ROOT, "levels.json")))

# id -> (technique, level text, level note, design ref)
CHECKS = {
 "C11": ("reference-model monitor (sorted map) over random part.Tree histories + persistence re-verification of retained versions/clones/iterators; race detector/checkptr slice",
         "Exploration: thousands of seeded random histories (grow/shrink fan-out phases through every node size, abandoned transactions, side branches) are executed on the real part.Tree and every return value and every retained version is compared with a sorted-map model after every transaction. Evidence is 'held on K histories', not a proof.",
         "Trusts the sorted-map model in harness/partsim and Go's race detector/checkptr; only one transaction in flight per lineage; side branches start from trees and from clones; Txn.All loops that write to the transaction they iterate must yield the contents at the time of the call; keys of 65 536 bytes or more are known finding D15.", "5/C11"),
 "C12": ("watch-channel oracle (must-close / must-stay-open sets computed from a model) evaluated at every Notify of random part.Tree histories",
         "Exploration: seeded random histories with up to 80 retained channels (root, Get, Prefix, InsertWatch/ModifyWatch, from trees and from inside transactions), in per-node and root-only modes; the root watch is held to exactness, the others to must-close, and no channel may close outside Notify.",
         "Trusts the model of which keys a transaction changed; spurious closes of Get/Prefix channels are not violations (the statement only demands closing).", "5/C12"),
 "C13": ("reference-model monitor (map keyed by bit string, brute-force longest match / covered set / order) over random lpm.Trie histories + persistence re-verification; race detector slice",
         "Exploration: seeded random histories over key widths 16/32/128 with prefixes nesting and diverging at every bit, Reuse/Clear, abandoned transactions and side branches; every Insert/Delete/Lookup/LookupExact/Prefix/LowerBound/All/Len result and every retained trie/iterator is compared with the model.",
         "Trusts the bit-string model; Lookup is asked only with full-length keys and stored prefixes (the domain of the statement).", "5/C13"),
 "C17": ("reference-model monitor (Go map/set) over branching histories on a pool of part.Map/part.Set versions, JSON/YAML round trips (also into used destinations); every registered key type over hostile values; race detector on shared values",
         "Exploration: seeded branching histories (every step derives from a random earlier version; sizes biased to 0..2 so each representation switch is crossed by every operator pair; MapTxn reuse after Commit interleaved with operations on the committed map; early-break iteration) with every pooled version re-verified after every step; plus 8 goroutines sharing one value under -race.",
         "Trusts the Go map model; string keys are valid UTF-8; only encoder-produced JSON/YAML is decoded.", "5/C17"),
 "C18": ("bounded-exhaustive enumeration monitor: encoded composite keys of all enumerated (secondary, primary) pairs must be strictly increasing in specification order and split back; black-box order read-back through List/Prefix/LowerBound; encoder domains",
         "Exploration with a bounded-exhaustive core: all pairs of byte strings of length 0..3 over {00,01,02,ff} (quick; 0..4 over {00,01,02,7f,ff} thorough) are encoded with the real encoder (exposed under the verif tag) and compared in specification order, which decides injectivity and order preservation for every pair of the enumerated space; Uint16 over its whole domain, Int over the whole domain of int, all six decimal string parsers inside and outside their domains, index.Set keys, 32/64-bit encoders over boundary sets and seeded samples, LPM keys for all prefix lengths 0..32 x sampled words. Long primaries are probed at listed lengths only.",
         "The enumerated space is small by design (short strings); long keys only at the listed probe lengths (those failing are known findings D9). Signed encoders are only checked for injectivity, as the statement says.", "5/C18"),
 "C20": ("virtual-time (testing/synctest) monitor comparing return time, returned set, error and Has() of WatchSet.Wait with an executable model over random close/cancel/settle schedules, earlier results re-read after later calls; concurrent Wait/Add/Has on one set under the race detector with an exactly-once oracle over all returned channels",
         "Exploration: seeded random schedules run under virtual time so that return instants are exact; up to three consecutive Wait calls per set; sets built with Add duplicates, Clear and Merge, a quarter with a nil member; contexts of four kinds (cancel, cancel with cause, deadline, deadline with cause); all three settle regimes and cancellation before/after the first close, calls whose context has ended before the call (consistency only), sets of up to 65 535 members; plus real-time runs under -race in which 2-4 goroutines call Wait on one set while others add, close and probe (every channel returned at most once, only added and closed ones, membership afterwards).",
         "Event times are kept distinct so the model has no ties; real-timer granularity is out of scope (virtual time); in the concurrent part a closed member not returned within 30 s of wall-clock time is reported inconclusive, not as a violation.", "5/C20"),
 "C01": ("transcript monitor: retained snapshots (and retained result sequences) are re-queried after every later transaction/abort/collection window and compared with the transcript recorded at creation and with the model of that snapshot; virtual time for graveyard collection; race detector with concurrent snapshot readers, a writer and a table registrar",
         "Exploration: seeded random histories under testing/synctest with the DB started; up to 16 retained snapshots per history taken between transactions (transcripts include Initialized/PendingInitializers; transactions register and complete initializers), while a write transaction is pending and from Commit; LPM-heavy variant with several objects per prefix; table registrations running into commits; plus a -race part where 6 readers rebuild the model from each snapshot's primary index, check every index against it and keep re-verifying retained transcripts (and the set of tables) while a writer history and a registrar run.",
         "Trusts the reference model (harness/dbsim) and the fixed probe battery; frozenness is decided by transcript equality on a fixed probe set per snapshot, not on all possible queries.", "5/C01"),
 "C03": ("reference-model monitor (keyed map with learned revisions) over return values, error kinds and in-transaction reads of random write histories; race/checkptr slice",
         "Exploration: seeded random histories of all RWTable write operations with guards drawn from current/stale/foreign/future revisions, writes on tables not held and through finished handles, commits and aborts; every return value and the query battery (inside the transaction, after commit, after abort) is compared with the model; variants with wide fan-out keys (sweeps through every radix node size), long and deeply nested keys, and with change iterators created, read and closed between the operations (graveyard maintenance by Insert/Delete).",
         "Trusts the map model; guard 0 and re-insertion of the same pointer are outside the domain.", "5/C03"),
 "C04": ("reference-model monitor: full query battery on every index compared with results brute-forced from the model's object set (result-sequence oracle)",
         "Exploration: seeded random histories over six schemas (unique, non-unique multi-key, NetIPPrefix LPM with IPv4/IPv6/4in6 and comb-shaped prefix sets, unique LPM, wide fan-out with sweeps through every radix node size, long and deeply nested keys) with hostile keys; Get/List/Prefix/LowerBound/All/NumObjects/by-revision, AnyTable string queries, WriteJSON and Indexes() inside write transactions and on snapshots; query results obtained from write transactions ranged after later writes, after Commit/Abort and during later transactions; a quarter of the histories also queried through the HTTP handler and RemoteTable.",
         "Trusts the brute-force model; LPM Get/List only with full-length keys and stored prefixes; nil keys mean 'no key'.", "5/C04"),
 "C07": ("change-stream monitor: per-iterator replay map and the model's committed write/deletion log, under virtual time with graveyard collection running; hook-point probe of the commit window; Observable stream; real-time consumer goroutines under the race detector",
         "Exploration: seeded random histories under testing/synctest (collector every 1 ms of virtual time): iterators created at arbitrary points incl. inside transactions and aborted ones, Next with fresh/older/write transactions, partial consumption, Close; strictly increasing revisions, only-committed, replay==snapshot, deletions delivered, open channel closed by the next commit.",
         "Snapshots passed to Next are monotone and not older than the iterator. Under real concurrency whether Next's channel was already closed cannot be observed reliably, so convergence is judged after a non-empty fully drained sequence and at the final quiescent state; the missed-wake-up window (Next between root store and notification) is enumerated with the committer paused at the hook points.", "5/C07"),
 "C09": ("revision monitor: the model learns each revision from Revision(wtxn) and asserts strict monotonicity, attribution, no change on rejected/no-op/aborted/collector/tracker commits, ByRevision order",
         "Exploration: seeded random histories (sequential) plus histories with change iterators, Close and graveyard collection commits under virtual time, plus a -race part with one writer per table, revision samplers, iterator churn, the collector and a goroutine registering tables (revision constant within a snapshot, non-decreasing across snapshots and commits, never below the last committed one); revisions reported through RemoteTable in a quarter of the sequential histories.",
         "Revisions are required to be strictly increasing, not +1.", "5/C09"),
 "C05": ("hook-point pause/probe controller (fault enumeration of interleavings) + race-detector stress with delay injection, table-holder and lock-order monitors, sequence-counter conservation and porcupine strict-serializability check of recorded histories",
         "Fault enumeration: writer A is paused at each of 9 hook points (commit and abort variants) while a same-table writer, a disjoint-table writer or NewTable runs; plus 4 probes of write transactions with an empty table set and a writer holding every table against empty-set committers; plus exploration by concurrent histories under -race with delays injected at the hook points, every history checked by porcupine against a counter-vector model, and by full-speed disjoint writers (32 tables, 320 000 back-to-back commits per run, registrar and empty-set committer running) each checking that it starts from what it committed last.",
         "Windows without a hook point are reached only by the stress part; the 'B must not be granted' probe waits 1.5 ms (reaching the lock is definite, not reaching it just ends the probe); porcupine timeouts are inconclusive.", "5/C05"),
 "C10": ("lock-order monitor (lockdep style) on every table-lock acquisition + hook-point independence probes + race-detector stress with progress watchdog and hook-derived wait-for snapshot",
         "Fault enumeration: with a writer paused at each of 9 hook points, readers, disjoint committers, iterator create/close and duplicate/unordered table sets must complete (committers may queue at commit.rootLocked); exploration: 2-32 goroutines over 2-8 tables with iterators, 1 ms collection and table registration under -race; a WriteTxn refused for an unregistered table, the library's db/insert and db/delete script commands on every exit path, a Derive job stopped idle or in mid-batch, an Observable whose context ends before, during or after registration, and a collector whose scanned objects were all resurrected must leave all tables lockable; strictly increasing lock sequence numbers are asserted on every acquisition, which catches ordering/de-duplication bugs on every execution rather than only when a deadlock happens.",
         "A watchdog firing without wait-for evidence is reported inconclusive; bounded progress = the fixed operation count completes.", "5/C10"),
 "C02": ("hook-point pause/probe controller: snapshots taken by a second goroutine while the writer is paused at every step inside Commit/Abort (all-or-none + conserved sum); abort-vs-never-ran model comparison over random histories; race-detector stress with conserved sums, per-tag all-or-none and porcupine",
         "Fault enumeration over the 10 pause points of WriteTxn/Commit/Abort with 2-4 table transactions (snapshots from a second goroutine and a second writer queued behind the paused one: all or nothing), plus exploration: aborted transactions of every operation kind (incl. initializer registrations and completions, writes on tables not held) compared with the model in which they never ran (battery on every index, revisions, initialization state, retained watch channels, retained snapshots, behaviour of later transactions; a write transaction used as a snapshot of tables it does not hold must not see later commits through Next), plus concurrent transfer workloads under -race whose every snapshot must show the conserved total and all-or-none of each transaction's rows.",
         "The 'never ran' reference is the executable model, not a second database; graveyard retention after abort is observed through change iterators (C07 oracle), not through counts.", "5/C02"),
 "C06": ("watch-channel oracle over random histories (model decides must-close at every Commit, no-close after Abort, open at hand-out) + commit-phase monitor at the hook points inside Commit + woken-reader revision check with concurrent waiters under the race detector",
         "Fault enumeration at the hook points commit.beforeRootLock / commit.rootLocked / commit.afterNotify (no channel closed before the root store; closed channels imply a newer visible revision) on every commit of seeded random histories with up to 40 retained channels of every *Watch variant on every index kind (and a wide fan-out variant whose sweep transactions replace nodes of every radix size under retained channels); plus waiter goroutines under -race with delay injection.",
         "Spurious closes by committed transactions are allowed (the statement forbids only missed changes, early wake-ups and abort wake-ups); a commit that changes nothing (e.g. only a rejected compare-and-swap) may close channels without a newer revision; LowerBoundWatch is held to 'result changed', AllWatch to 'table changed'.", "5/C06"),
 "C08": ("graveyard monitors under virtual time: change-stream oracle for lagging iterators while the collector runs, collector paused at the hook point between scan and write transaction while the table changes, bounded-drain check on the retained count reported by the DB",
         "Fault enumeration of the scan/write window of the collector (paused at gc.afterScan in about one history in one; 1-3 adversarial steps before it resumes) plus exploration by seeded random histories with deletes/re-inserts/re-deletes and up to 4 iterators per table at arbitrary progress; bounded liveness: retained count 0 within 3 collection intervals of virtual time after all iterators drained or closed.",
         "Liveness is only decided as this bounded progress under virtual time; the retained count is read from Metrics.GraveyardObjectCount.", "5/C08"),
 "C19": ("initialization-state monitor (model set of registered/done initializers over committed transactions) + commit-phase monitor of the Initialized() channel at the hook points inside Commit + concurrent waiters under the race detector",
         "Fault enumeration at the commit hook points (channel open up to and including commit.rootLocked, closed only by the completing commit, closed implies a fresh snapshot says initialized) on every commit of seeded random histories of registrations and marks across committed and aborted transactions; plus waiter goroutines under -race with delay injection.",
         "Initializer names are unique per registration; done functions from registrations in aborted transactions are not called.", "5/C19"),
 "C14": ("virtual-time (testing/synctest) monitor of the real reconciler (hive job group) against a simulated target: bounded-convergence check after failures and changes stop",
         "Exploration: seeded random runs over configurations (single/batch, round size 1/2/3/1000, limiter none/10 ms, four backoff settings, refresh and pruning on/off) with per-call failures, writes injected inside operations and between the operation and the status commit, status-only writes by a simulated second reconciler, and in a third of the runs 1-4 further real reconcilers (own status slot, target and failures) on the same table, each held to the same convergence obligations; liveness is restated as bounded progress in virtual time.",
         "Bound: 2 x RetryBackoffMax + (objects+5) x (limiter interval + 35 ms) + 1 s of virtual time; with refreshing enabled a Refreshing status at the final instant is accepted.", "5/C14"),
 "C15": ("virtual-time monitor over the attempt log and user-write log of the real reconciler: table == latest user writes, statuses backed by attempts, foreign statuses preserved, Update/Prune call preconditions",
         "Exploration: the C14 runs with every placement of user writes {between rounds, inside Update/Delete/UpdateBatch, between the operation and the status commit} x {update, delete, delete+re-insert, status-only by a second reconciler} x {success, failure}; invariants evaluated at every quiescent point; a third of the runs use a copy-returning status setter; sequential runs in which user transactions keep the table locked for a while of virtual time while the reconciler and the refresher wait (hook gate); in a third of the runs 1-4 further real reconcilers share the table (their statuses must be backed by their own attempts); plus a value-semantics part for StatusSet (Set/Pending/JSON on a pool of versions, every earlier version re-read).",
         "The model of user writes is updated under the table lock; quiescent points are synctest.Wait() after sleeping.", "5/C15"),
 "C16": ("virtual-time monitor over the timestamps of operation attempts and the values returned by WaitUntilReconciled, exact in pacing runs",
         "Exploration: general runs check the lower bound (no retry sooner than RetryBackoffMin), that WaitUntilReconciled(rev) never returns nil before every still-current change <= rev was attempted, and every returned zero watermark against the round log (an untouched object that failed three rounds ago must show); streak runs check the waits of 25-45 consecutive failures under backoffs up to 1 h / 24 h; lock-held runs add slow lock holders, refreshing and reconciler rounds forced between a commit's root store and its notifications while its revision is waited for; pacing runs (instantaneous operations, unlimited limiter) check non-shrinking waits, the cap, the fresh first wait after change/success and the exact low-watermark at quiescent points.",
         "A status-only write by another reconciler between a failure and the next attempt makes that pair unjudged (both immediate reprocessing and paced retry are legitimate); the lower bound is judged in runs without refreshing and without further real reconcilers (their writes are not in the event log) and exactly in the pacing runs; 'change up to rev' is read by revision: an object that another writer moved to a revision above rev is a later change; watermark model = revision argument of the oldest pending failed attempt.", "5/C16"),
}

NOT_YET = "check not built yet in this session (planned: see DESIGN.md section 5)"


def main():
    hooks = subprocess.run(["git", "-C", "/repo", "log", "--format=%H %s"], capture_output=True, text=True).stdout.splitlines()
    hook_commits = [l.split()[0] for l in hooks if " verif:" in l]
    checks = []
    for pid in sorted(CHECKS):
        tech, text, note, ref = CHECKS[pid]
        checks.append({
            "property_id": pid,
            "quick_cmd": f"./run check {pid} quick",
            "thorough_cmd": f"./run check {pid} thorough",
            "evidence_file": f"/verif/evidence/{pid}.json",
            "replay_cmd_template": f"./run replay {pid} {{path}}",
            "engine": "harness",
            "level_claimed": {"category": LEVELS[pid], "text": text, "design_ref": "DESIGN.md section " + ref},
            "level_note": note,
            "technique": tech,
        })
    props = [json.loads(l)["id"] for l in open(os.path.join(ROOT, "properties.jsonl"))]
    na = [{"property_id": p, "reason": NOT_YET} for p in props if p not in CHECKS]
    m = {
        "version": 1,
        "setup_cmd": "./setup.sh",
        "hooks": {
            "guard": "verif",
            "enable": "go build tag: checks run `go test -tags verif` in /verif/harness (module verifharness, replace github.com/cilium/statedb => /repo), so /repo's working tree is rebuilt with the hooks on every run",
            "baseline_off_cmd": "./run baseline-off",
            "source_commits": hook_commits,
            "add_only": True,
        },
        "engines": [{"name": "harness", "path": "/verif/harness", "serves_properties": sorted(CHECKS),
                     "kind_free_text": "Go test packages (one per property) that drive the real code and monitor it: reference-model monitors, hook-point pause/probe controller, race detector, porcupine, testing/synctest virtual time; driver /verif/run merges per-part evidence and classifies violations against known_findings.json"}],
        "checks": checks,
        "notes": "Technique family: runtime monitoring and sanitizers. See DESIGN.md. Known findings: known_findings.json.",
        "not_applicable": na,
    }
    json.dump(m, open(os.path.join(ROOT, "MANIFEST.json"), "w"), indent=1)
    print("wrote MANIFEST.json with", len(checks), "checks;", len(na), "not yet claimed")


if __name__ == "__main__":
    main()
