#!/bin/bash
# Apply a seeded change to /repo, run one or more checks against it, undo the change.
# usage: ./mutest.sh <patch.diff> <ID> [<ID>...]   (VERIF_SEED / VERIF_TIER respected)
set -u
patch=$1; shift
if [ -n "$(git -C /repo status --porcelain)" ]; then echo "/repo is not clean"; exit 3; fi
git -C /repo apply "$patch" || { echo "patch does not apply"; exit 3; }
trap 'git -C /repo checkout -- . ; git -C /repo clean -fdq' EXIT
rc=0
for id in "$@"; do
  out=$(cd /verif && timeout 1500 ./run check "$id" "${VERIF_TIER:-quick}" 2>&1)
  r=$?
  echo "$out" | grep -E "^(VIOLATION|KNOWN-FINDING|BUILD-FAILED|INCONCLUSIVE)" | cut -c1-220 | sort | uniq -c | sort -rn | head -8
  echo "== $id exit=$r"
  [ $r -ne 0 ] && rc=1
done
exit $rc
