#!/bin/bash
# Apply a seeded change to a scratch worktree of /repo (never to /repo itself), run checks against it, remove the worktree.
# usage: ./mutest.sh <patch.diff> <ID> [<ID>...]   (VERIF_SEED / VERIF_TIER respected)
set -u
patch=$(readlink -f "$1"); shift
wt=$(mktemp -d /tmp/mutest-XXXXXX)
git -C /repo worktree add -q --detach "$wt" HEAD || exit 3
trap 'git -C /repo worktree remove --force "$wt" 2>/dev/null; rm -rf "$wt" "$wt-out"' EXIT
git -C "$wt" apply "$patch" || { echo "patch does not apply"; exit 3; }
rc=0
for id in "$@"; do
  # separate evidence/log dirs are not needed: the driver writes per-ID files; do not run two mutests of the same ID at once
  out=$(cd /verif && VERIF_REPO="$wt" VERIF_OUT="$wt-out" timeout 1500 ./run check "$id" "${VERIF_TIER:-quick}" 2>&1)
  r=$?
  echo "$out" | grep -E "^(VIOLATION|KNOWN-FINDING|BUILD-FAILED|INCONCLUSIVE)" | cut -c1-220 | sed 's/replay=[^ ]*//' | sort | uniq -c | sort -rn | head -8
  echo "== $id exit=$r"
  [ $r -ne 0 ] && rc=1
done
exit $rc
