#!/usr/bin/env python3
"""Confirm a seeded change delivered by a sub-agent and run our checks against it.

  ./seedconfirm.py <dir with patch.diff, demo *_test.go, NOTES.md> <seeded-id> <PROP> [<other check IDs>...]

Steps (all in a scratch worktree of /repo, removed afterwards):
  1. demo passes on the unchanged tree;  2. patch applies, builds;  3. demo fails with the patch;
  4. the existing suite passes with the patch;  5. ./run check <PROP> quick (and the other IDs) against the patched tree.
Writes /verif/seeded/<seeded-id>/{patch.diff, demo, NOTES.md, meta.json}.
"""
import json, os, re, shutil, subprocess, sys, tempfile, time, glob

ROOT = "/verif"
TOOLCHAIN = "/root/go/pkg/mod/golang.org/toolchain@v0.0.1-go1.25.0.linux-amd64/bin"


def env():
    e = dict(os.environ)
    e["PATH"] = TOOLCHAIN + ":" + e["PATH"]
    e.update(GOTOOLCHAIN="local", GOSUMDB="off", GOFLAGS="-mod=mod", GOPROXY="off")
    return e


def sh(cmd, cwd, timeout=1800):
    p = subprocess.run(cmd, shell=True, cwd=cwd, env=env(), capture_output=True, text=True, timeout=timeout)
    return p.returncode, (p.stdout + p.stderr)


def main():
    src, sid, prop = sys.argv[1], sys.argv[2], sys.argv[3]
    others = sys.argv[4:]
    patch = os.path.join(src, "patch.diff")
    demos = [f for f in glob.glob(os.path.join(src, "*_test.go")) + glob.glob(os.path.join(src, "*_test.go.txt"))]
    assert os.path.exists(patch) and demos, "missing patch or demo"
    demo = demos[0]
    head = open(demo).read(2000)
    # where does the demo go? look for a path-like token in the header comment
    m = re.search(r"(?:path|Path|PATH)[^\n]*?((?:[\w./<> -]*/)?[\w.-]+_test\.go)", head)
    rel = os.path.basename(demo)
    if rel.endswith(".txt"):
        rel = rel[:-4]
    if m:
        tok = m.group(1).strip()
        tok = re.sub(r"<[^>]*>/?", "", tok).strip().lstrip("/")
        tok = re.sub(r"^tmp/[^/]+/", "", tok)  # absolute path inside the agent's worktree
        if "/" in tok:
            rel = tok
        elif tok.endswith("_test.go"):
            rel = tok
    pkgm = re.search(r"^package (\w+)", open(demo).read(), re.M)
    pkg = pkgm.group(1)
    if "/" not in rel:
        # choose directory by package name
        d = {"statedb": ".", "statedb_test": ".", "part": "part", "part_test": "part", "lpm": "lpm", "lpm_test": "lpm", "index": "index", "index_test": "index",
             "reconciler": "reconciler", "reconciler_test": "reconciler", "internal": "internal", "internal_test": "internal"}.get(pkg, ".")
        rel = os.path.normpath(os.path.join(d, rel))
    wt = tempfile.mkdtemp(prefix="seedconf-", dir="/tmp")
    os.rmdir(wt)
    subprocess.run(["git", "-C", "/repo", "worktree", "add", "-q", "--detach", wt, "HEAD"], check=True)
    meta = {"id": sid, "breaks_property": prop, "source": src, "demo_path_in_repo": rel, "repo_commit": subprocess.run(["git", "-C", "/repo", "rev-parse", "--short", "HEAD"], capture_output=True, text=True).stdout.strip()}
    try:
        shutil.copy(demo, os.path.join(wt, rel))
        pkgdir = "./" + os.path.dirname(rel) if os.path.dirname(rel) else "."
        tests = re.findall(r"^func (Test\w+)\(", open(demo).read(), re.M)
        runre = "^(" + "|".join(tests) + ")$"
        race = "-race" if re.search(r"go test[^\n]*-race", open(os.path.join(src, "NOTES.md")).read() if os.path.exists(os.path.join(src, "NOTES.md")) else "") else ""
        democmd = f"go test -vet=off -count=1 {race} -run '{runre}' {pkgdir}"
        rc0, out0 = sh(democmd, wt, 600)
        meta["demo_cmd"] = democmd
        meta["demo_on_unchanged_tree"] = "pass" if rc0 == 0 else "FAIL"
        rca, outa = sh(f"git apply '{patch}'", wt)
        meta["patch_applies"] = rca == 0
        rcb, outb = sh("go build ./... && go vet -tags verif . >/dev/null 2>&1; go build -tags verif ./...", wt)
        meta["builds"] = rcb == 0
        rc1, out1 = sh(democmd, wt, 600)
        meta["demo_with_change"] = "fail" if rc1 != 0 else "PASS"
        meta["demo_failure_excerpt"] = "\n".join([l for l in out1.splitlines() if "FAIL" in l or "panic" in l or "Error" in l or "DATA RACE" in l][:6])
        os.remove(os.path.join(wt, rel))
        rc2, out2 = sh("go test -vet=off -count=1 $(go list ./... | grep -v /mutants/) 2>&1 | tail -15", wt, 1500)
        suite_ok = "FAIL" not in out2
        if not suite_ok:
            # flaky under load? once more
            rc2, out2b = sh("go test -vet=off -count=1 $(go list ./... | grep -v /mutants/) 2>&1 | tail -15", wt, 1500)
            suite_ok = "FAIL" not in out2b
            out2 += "\n--- rerun ---\n" + out2b
        meta["existing_suite_with_change"] = "pass" if suite_ok else "FAIL"
        if not suite_ok:
            meta["suite_output"] = out2[-1500:]
        meta["checks"] = {}
        for cid in [prop] + others:
            e = dict(os.environ)
            e["VERIF_REPO"] = wt
            e["VERIF_OUT"] = wt + "-out"
            t0 = time.time()
            p = subprocess.run(["./run", "check", cid, "quick"], cwd=ROOT, env=e, capture_output=True, text=True, timeout=3000)
            keys = sorted(set(re.findall(r"^VIOLATION .*key=(\S+)", p.stdout, re.M)))
            meta["checks"][cid] = {"exit": p.returncode, "violation_keys": keys[:12], "wall_s": round(time.time() - t0, 1),
                                   "detected": p.returncode == 1 and bool(keys)}
    finally:
        shutil.rmtree(wt + "-out", ignore_errors=True)
        subprocess.run(["git", "-C", "/repo", "worktree", "remove", "--force", wt])
        shutil.rmtree(wt, ignore_errors=True)
    confirmed = meta.get("demo_on_unchanged_tree") == "pass" and meta.get("patch_applies") and meta.get("builds") and meta.get("demo_with_change") == "fail" and meta.get("existing_suite_with_change") == "pass"
    meta["confirmed"] = bool(confirmed)
    notes = os.path.join(src, "NOTES.md")
    if os.path.exists(notes):
        txt = open(notes).read()
        mm = re.search(r"(?is)(what it needs[^\n]*\n.*?)(?:\n#|\Z)", txt)
        meta["needs_to_manifest"] = (mm.group(1).strip()[:900] if mm else txt[:600])
    out = os.path.join(ROOT, "seeded", sid)
    if confirmed:
        os.makedirs(out, exist_ok=True)
        shutil.copy(patch, os.path.join(out, "patch.diff"))
        shutil.copy(demo, os.path.join(out, os.path.basename(demo)))
        if os.path.exists(notes):
            shutil.copy(notes, os.path.join(out, "NOTES.md"))
        meta["what_was_run"] = [meta["demo_cmd"] + " (unchanged tree: pass; with patch: fail)", "go test -vet=off -count=1 ./... with patch: pass",
                                "VERIF_REPO=<patched worktree> ./run check " + " ".join([prop] + others) + " quick"]
        json.dump(meta, open(os.path.join(out, "meta.json"), "w"), indent=1)
    print(json.dumps({k: meta[k] for k in meta if k not in ("needs_to_manifest", "suite_output")}, indent=1))
    return 0 if confirmed else 1


if __name__ == "__main__":
    sys.exit(main())
