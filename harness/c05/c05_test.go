package c05

import (
	"fmt"
	"runtime"
	"sort"
	"sync"
	"sync/atomic"
	"testing"
	"time"

	"github.com/cilium/statedb"

	"verifharness/concw"
	"verifharness/hookctl"
	"verifharness/vkit"
)

const ruleForced = "fault enumeration over hook points: writer A is paused at each of wtxn.afterLock, wtxn.afterRootLoad, wtxn.ready, (open), commit.beforeRootLock, commit.rootLocked, " +
	"commit.afterRootStore, commit.afterNotify, commit.afterUnlock (commit or abort variants) while (i) a second writer B requests the same table - B must not be granted it before A's unlock and must then see A's write; " +
	"(ii) B runs a whole transaction on a disjoint table - both writes must survive in every order of the two commits; (iii) a third goroutine registers a new table - afterwards the new table, A's write and a write to the new table all exist; " +
	"non-trivial = the pause point was reached and the probe ran while A was paused; distinct = (scenario, point, variant)"

const ruleStress = "concurrent histories under the race detector with delay injection at hook points: 4-10 clients, 1-4 tables, transactions over random overlapping table subsets (random order, duplicates, 10% aborts) " +
	"that read and increment a per-table sequence object, and snapshot reads; oracles: table-holder monitor (no second holder before the first one's root store), lock-order monitor, counters == commits, every pre-value observed once, " +
	"porcupine (strict serializability against a counter-vector model); non-trivial = history with at least 2 clients overlapping on a table; distinct = hash of the recorded history"

var points = []string{"wtxn.afterLock", "wtxn.afterRootLoad", "wtxn.ready", "open", "commit.beforeRootLock", "commit.rootLocked", "commit.afterRootStore", "commit.afterNotify", "commit.afterUnlock"}

// holdsLock says whether A still holds its table locks while paused at the point.
func holdsLock(p string) bool { return p != "commit.afterUnlock" }

func isCommitPoint(p string) bool { return len(p) > 7 && p[:7] == "commit." }

type scenario struct {
	Kind   string `json:"kind"`
	Point  string `json:"point"`
	AbortA bool   `json:"abort_a"`
	TwoTab bool   `json:"a_holds_two_tables"`
	AllTab bool   `json:"a_holds_every_table"` // newtable only: the database has no table besides A's
	Init   bool   `json:"initializers_completed_before"`
}

// runScenario returns "" or a violation (key, message).
func runScenario(ctl *hookctl.Ctl, idx int, sc scenario) (key, msg string, reached bool) {
	db := statedb.New()
	ntabs := 3
	if sc.AllTab {
		ntabs = 1
	}
	tabs := concw.NewTables(db, "t", ntabs)
	if sc.Init {
		// the tables went through initialization: initializers registered in one transaction and completed in a later one
		// (the commit that completes them republishes the table entries)
		all := make([]statedb.TableMeta, len(tabs))
		for i := range tabs {
			all[i] = tabs[i]
		}
		w := db.WriteTxn(all...)
		var done []func(statedb.WriteTxn)
		for i := range tabs {
			done = append(done, tabs[i].RegisterInitializer(w, fmt.Sprintf("init%d", i)))
		}
		w.Commit()
		w = db.WriteTxn(all...)
		for _, d := range done {
			d(w)
		}
		w.Commit()
	}
	hA, hB := fmt.Sprintf("A%d", idx), fmt.Sprintf("B%d", idx)
	A, B := db.NewHandle(hA), db.NewHandle(hB)
	var pa *hookctl.Pause
	if sc.Point != "open" {
		pa = ctl.PauseAt(hA, sc.Point)
	}
	opened := make(chan struct{})
	goCommit := make(chan struct{})
	doneA := make(chan struct{})
	go func() {
		defer close(doneA)
		var w statedb.WriteTxn
		if sc.TwoTab {
			w = A.WriteTxn(tabs[2], tabs[0])
		} else {
			w = A.WriteTxn(tabs[0])
		}
		c := concw.Get(w, tabs[0], "seq")
		tabs[0].Insert(w, &concw.Row{ID: "seq", V: c + 1, Tag: hA})
		tabs[0].Insert(w, &concw.Row{ID: "a-row", V: 1, Tag: hA})
		close(opened)
		<-goCommit
		if sc.AbortA {
			w.Abort()
		} else {
			w.Commit()
		}
	}()
	wait := func(ch <-chan struct{}, what string) bool {
		select {
		case <-ch:
			return true
		case <-time.After(vkit.Patient(20 * time.Second)):
			key, msg = "stuck/"+sc.Kind+"/"+sc.Point, "timeout waiting for "+what+" (hook-derived positions: "+fmt.Sprint(ctl.Snapshot())+")"
			return false
		}
	}
	cleanup := func() {
		if pa != nil {
			pa.Resume()
		}
		select {
		case <-goCommit:
		default:
			close(goCommit)
		}
	}
	defer cleanup()
	// bring A to the pause point
	switch {
	case sc.Point == "open":
		if !wait(opened, "A to open") {
			return
		}
	case isCommitPoint(sc.Point):
		if sc.AbortA {
			// abort variant pauses before the unlock instead
			pa.Resume()
			pa = ctl.PauseAt(hA, "abort.beforeUnlock")
		}
		if !wait(opened, "A to open") {
			return
		}
		close(goCommit)
		if !pa.WaitPaused(20 * time.Second) {
			key, msg = "stuck/"+sc.Kind+"/"+sc.Point, "A never reached the pause point"
			return
		}
	default:
		if !pa.WaitPaused(20 * time.Second) {
			key, msg = "stuck/"+sc.Kind+"/"+sc.Point, "A never reached the pause point"
			return
		}
	}
	reached = true
	held := holdsLock(sc.Point) || sc.AbortA

	switch sc.Kind {
	case "same-table":
		var seenB int64 = -1
		doneB := make(chan struct{})
		go func() {
			defer close(doneB)
			w := B.WriteTxn(tabs[1], tabs[0])
			seenB = concw.Get(w, tabs[0], "seq")
			tabs[0].Insert(w, &concw.Row{ID: "seq", V: seenB + 1, Tag: hB})
			w.Commit()
		}()
		// probe window: B must not be granted the table while A holds it
		time.Sleep(1500 * time.Microsecond)
		if at := ctl.At(hB); held && at != "" && at != "wtxn.beforeLock" {
			key, msg = "two-holders/"+sc.Point, fmt.Sprintf("B reached %q (was granted table t0) while A is paused at %s holding it", at, sc.Point)
		} else if held {
			select {
			case <-doneB:
				key, msg = "two-holders/"+sc.Point, fmt.Sprintf("B finished a transaction on table t0 while A is paused at %s holding it", sc.Point)
			default:
			}
		}
		cleanup()
		if !wait(doneA, "A to finish") || !wait(doneB, "B to finish") {
			return
		}
		if key != "" {
			return
		}
		wantSeen, wantFinal := int64(1), int64(2)
		if sc.AbortA {
			wantSeen, wantFinal = 0, 1
		}
		if seenB != wantSeen {
			key, msg = "stale-read/"+sc.Point, fmt.Sprintf("B (granted after A finished) saw seq=%d, want %d", seenB, wantSeen)
			return
		}
		if got := concw.Get(db.ReadTxn(), tabs[0], "seq"); got != wantFinal {
			key, msg = "lost-write/"+sc.Point, fmt.Sprintf("final seq=%d, want %d", got, wantFinal)
		}
	case "disjoint":
		doneB := make(chan struct{})
		go func() {
			defer close(doneB)
			w := B.WriteTxn(tabs[1])
			c := concw.Get(w, tabs[1], "seq")
			tabs[1].Insert(w, &concw.Row{ID: "seq", V: c + 1, Tag: hB})
			w.Commit()
		}()
		if sc.Point != "commit.rootLocked" || sc.AbortA {
			// independence: a transaction on another table completes while A is paused
			if !wait(doneB, "B (disjoint table) to finish while A is paused at "+sc.Point) {
				key = "blocked-disjoint/" + sc.Point
				return
			}
		}
		// readers never wait
		doneR := make(chan struct{})
		go func() {
			defer close(doneR)
			rt := db.ReadTxn()
			concw.Get(rt, tabs[0], "seq")
			concw.Get(rt, tabs[1], "seq")
		}()
		if !wait(doneR, "a reader while A is paused at "+sc.Point) {
			key = "blocked-reader/" + sc.Point
			return
		}
		cleanup()
		if !wait(doneA, "A to finish") || !wait(doneB, "B to finish") {
			return
		}
		rt := db.ReadTxn()
		wantA := int64(1)
		if sc.AbortA {
			wantA = 0
		}
		if a, b := concw.Get(rt, tabs[0], "seq"), concw.Get(rt, tabs[1], "seq"); a != wantA || b != 1 {
			key, msg = "lost-write/"+sc.Point, fmt.Sprintf("after A (t0) and B (t1): t0.seq=%d (want %d) t1.seq=%d (want 1)", a, wantA, b)
		}
	case "newtable":
		type res struct {
			t   statedb.RWTable[*concw.Row]
			err error
		}
		doneN := make(chan res, 1)
		hN := fmt.Sprintf("N%d", idx)
		go func() {
			t, err := statedb.NewTable(db.NewHandle(hN), "late", concw.IDIndex, concw.TagIndex)
			doneN <- res{t, err}
		}()
		// let the registration get as far as it can (at commit.rootLocked it queues on the root lock) before A moves on
		for i := 0; i < 2000 && ctl.At(hN) != "register.beforeLock" && len(doneN) == 0; i++ {
			time.Sleep(50 * time.Microsecond)
		}
		time.Sleep(300 * time.Microsecond)
		var late res
		got := false
		if sc.Point != "commit.rootLocked" || sc.AbortA {
			select {
			case late = <-doneN:
				got = true
			case <-time.After(vkit.Patient(20 * time.Second)):
				key, msg = "blocked-newtable/"+sc.Point, "NewTable did not finish while A is paused"
				return
			}
		}
		cleanup()
		if !wait(doneA, "A to finish") {
			return
		}
		if !got {
			select {
			case late = <-doneN:
			case <-time.After(vkit.Patient(20 * time.Second)):
				key, msg = "blocked-newtable/"+sc.Point, "NewTable did not finish after A finished"
				return
			}
		}
		if late.err != nil {
			key, msg = "newtable-error/"+sc.Point, late.err.Error()
			return
		}
		func() {
			defer func() {
				if p := recover(); p != nil {
					key, msg = "newtable-lost/"+sc.Point, fmt.Sprintf("using the table registered while A was at %s panics after A's commit: %v", sc.Point, p)
				}
			}()
			rt := db.ReadTxn()
			if db.GetTable(rt, "late") == nil {
				key, msg = "newtable-lost/"+sc.Point, "the table registered while A was at "+sc.Point+" is missing from the snapshot after A's commit"
				return
			}
			wantA := int64(1)
			if sc.AbortA {
				wantA = 0
			}
			if a := concw.Get(rt, tabs[0], "seq"); a != wantA {
				key, msg = "lost-write/"+sc.Point, fmt.Sprintf("t0.seq=%d want %d after NewTable interleaved", a, wantA)
				return
			}
			w := db.WriteTxn(late.t)
			late.t.Insert(w, &concw.Row{ID: "x", V: 7})
			rt2 := w.Commit()
			if concw.Get(rt2, late.t, "x") != 7 || concw.Get(db.ReadTxn(), tabs[0], "seq") != wantA {
				key, msg = "newtable-lost/"+sc.Point, "write to the new table (or A's write) not visible"
			}
		}()
	}
	return
}

func TestVerif_Forced(t *testing.T) {
	r := vkit.Start(t, "C05", "forced", "fault_enumeration", ruleForced)
	r.Assume("the probe window for 'B must not be granted the table' is 1.5 ms of real time: reaching the lock is a definite violation, not reaching it only ends the probe")
	r.Require("pause_points_reached", "probes")
	ctl := hookctl.Install(vkit.Seed())
	defer ctl.Uninstall()
	rounds := vkit.N(4, 60)
	idx := 0
	replayPart, replayIdx, isReplay := vkit.ReplayCase()
	for round := 0; round < rounds; round++ {
		for _, kind := range []string{"same-table", "disjoint", "newtable"} {
			for _, p := range points {
				for _, abortA := range []bool{false, true} {
					idx++
					if abortA && !(p == "open" || isCommitPoint(p) && p == "commit.beforeRootLock") {
						continue // abort variants: A open, and A inside Abort before its unlock
					}
					if isReplay && !(replayPart == "forced" && replayIdx == idx) {
						continue
					}
					rng := r.Rand(idx)
					if r.Violations() >= 3 {
						continue // fail fast: every stuck probe costs its full timeout
					}
					sc := scenario{Kind: kind, Point: p, AbortA: abortA, TwoTab: rng.IntN(2) == 0}
					sc.Init = rng.IntN(3) == 0
					if kind == "newtable" && rng.IntN(2) == 0 {
						sc.AllTab, sc.TwoTab = true, false
					}
					r.LogCase(idx)
					key, msg, reached := runScenario(ctl, idx, sc)
					if reached {
						r.Count("pause_points_reached", 1)
					}
					r.Count("probes", 1)
					r.Seen("scenario-point", kind+"/"+p+fmt.Sprint(abortA))
					h := vkit.NewHash().Str(kind).Str(p).Int(int64(round))
					if abortA {
						h.Int(1)
					}
					if sc.TwoTab {
						h.Int(2)
					}
					r.Case(h.Sum(), reached)
					if key != "" {
						r.Violation(key, idx, map[string]any{"scenario": sc, "message": msg})
					}
					if r.WantSample() {
						r.Sample(map[string]any{"case": idx, "scenario": sc, "result": "held"})
					}
				}
			}
		}
	}
	// A table handle that was never registered (NewTable rejected it as a duplicate) must not give access to any table:
	// while A holds every registered table, a WriteTxn through the rejected handle must not be granted.
	if !isReplay {
		idx++
		db := statedb.New()
		tabs := concw.NewTables(db, "t", 2)
		dup, err := statedb.NewTable(db, "t0", concw.IDIndex, concw.TagIndex)
		key, msg := "", ""
		if err == nil {
			key, msg = "duplicate-table-accepted", "NewTable with an existing name did not fail"
		} else if dup != nil {
			a := db.WriteTxn(tabs[0], tabs[1])
			tabs[0].Insert(a, &concw.Row{ID: "seq", V: 1})
			granted := make(chan string, 1)
			go func() {
				defer func() {
					if p := recover(); p != nil {
						granted <- "refused"
					}
				}()
				w := db.NewHandle("dup").WriteTxn(dup)
				dup.Insert(w, &concw.Row{ID: "other", V: 2})
				w.Commit()
				granted <- "granted"
			}()
			select {
			case g := <-granted:
				if g == "granted" {
					key, msg = "two-holders/unregistered-handle", "a write transaction through the handle of a table that NewTable rejected (duplicate name) was granted and committed while another transaction holds every registered table"
				}
			case <-time.After(200 * time.Millisecond):
				// blocked on its own lock or similar: not granted
			}
			committed := make(chan struct{})
			var commitPanic any
			go func() {
				defer close(committed)
				defer func() { commitPanic = recover() }()
				a.Commit()
			}()
			select {
			case <-committed:
				if commitPanic != nil {
					key, msg = "two-holders/unregistered-handle", fmt.Sprintf("Commit of the transaction holding every registered table panics after a transaction through a rejected table handle ran: %v", commitPanic)
				}
			case <-time.After(vkit.Patient(20 * time.Second)):
				key, msg = "stuck/after-rejected-registration", "Commit does not finish after a rejected duplicate NewTable"
			}
			if key == "" {
				rt := db.ReadTxn()
				if concw.Get(rt, tabs[0], "seq") != 1 || concw.Get(rt, tabs[0], "other") != 0 || concw.Get(rt, tabs[1], "other") != 0 {
					key, msg = "lost-write/unregistered-handle", "writes through an unregistered table handle reached a registered table or A's write was lost"
				}
			}
		}
		r.Count("probes", 1)
		r.Case(vkit.NewHash().Str("dup-handle").Sum(), true)
		if key != "" {
			r.Violation(key, idx, map[string]any{"scenario": "unregistered duplicate handle", "message": msg})
		}
	}
	// A write transaction with an empty table set holds nothing: whatever commits or is registered while it is open must
	// survive its Commit / Abort (it must not publish the root it started from).
	for variant := 0; variant < 4; variant++ {
		idx++
		if isReplay && !(replayPart == "forced" && replayIdx == idx) {
			continue
		}
		db := statedb.New()
		tabs := concw.NewTables(db, "t", 2)
		w0 := db.WriteTxn(tabs[0])
		tabs[0].Insert(w0, &concw.Row{ID: "seq", V: 1})
		w0.Commit()
		e := db.NewHandle("empty").WriteTxn()
		w1 := db.WriteTxn(tabs[0], tabs[1])
		tabs[0].Insert(w1, &concw.Row{ID: "seq", V: 2})
		tabs[1].Insert(w1, &concw.Row{ID: "seq", V: 5})
		w1.Commit()
		var late statedb.RWTable[*concw.Row]
		if variant >= 2 {
			var err error
			late, err = statedb.NewTable(db, "late", concw.IDIndex, concw.TagIndex)
			if err != nil {
				r.Violation("newtable-error/empty-set", idx, map[string]any{"message": err.Error()})
				continue
			}
		}
		if variant%2 == 0 {
			e.Commit()
		} else {
			e.Abort()
		}
		rt := db.ReadTxn()
		key, msg := "", ""
		if a, b := concw.Get(rt, tabs[0], "seq"), concw.Get(rt, tabs[1], "seq"); a != 2 || b != 5 {
			key, msg = "lost-write/empty-set", fmt.Sprintf("after a write transaction with an empty table set finished: t0.seq=%d (want 2) t1.seq=%d (want 5): writes committed while it was open were overwritten", a, b)
		} else if late != nil && db.GetTable(rt, "late") == nil {
			key, msg = "newtable-lost/empty-set", "a table registered while a write transaction with an empty table set was open is gone after it finished"
		}
		r.Count("probes", 1)
		r.Case(vkit.NewHash().Str("empty-set").Int(int64(variant)).Sum(), true)
		if key != "" {
			r.Violation(key, idx, map[string]any{"scenario": "empty table set", "variant": variant, "message": msg})
		}
	}
	// The registration of a change iterator is a committed write to the table like any other: an iterator Close() that queues for
	// the table lock while another iterator is registered and committed must build on that commit, not on what it saw before.
	for variant := 0; variant < 2; variant++ {
		idx++
		if isReplay && !(replayPart == "forced" && replayIdx == idx) {
			continue
		}
		db := statedb.New()
		tabs := concw.NewTables(db, "q", 1)
		hn := fmt.Sprintf("closer%d", idx)
		hc := db.NewHandle(hn)
		w := hc.WriteTxn(tabs[0])
		it1, err := tabs[0].Changes(w)
		w.Commit()
		if err != nil {
			t.Fatal(err)
		}
		pa := ctl.PauseAt(hn, "wtxn.beforeLock")
		closed := make(chan struct{})
		go func() { defer close(closed); it1.Close() }()
		key, msg := "", ""
		if pa.WaitPaused(10 * time.Second) {
			w := db.WriteTxn(tabs[0])
			it2, err := tabs[0].Changes(w)
			tabs[0].Insert(w, &concw.Row{ID: "x", V: 1})
			w.Commit()
			if err != nil {
				t.Fatal(err)
			}
			if variant == 1 {
				seq, _ := it2.Next(db.ReadTxn())
				for range seq {
				}
			}
			pa.Resume()
			<-closed
			w = db.WriteTxn(tabs[0])
			tabs[0].Delete(w, &concw.Row{ID: "x"})
			w.Commit()
			sawDelete := false
			for k := 0; k < 3 && !sawDelete; k++ {
				seq, _ := it2.Next(db.ReadTxn())
				for ch := range seq {
					if ch.Deleted && ch.Object.ID == "x" {
						sawDelete = true
					}
				}
			}
			if !sawDelete && variant == 1 {
				key, msg = "lost-write/tracker-registration", "an iterator registered (and committed) while another iterator's Close() was queued for the table lock is never handed a later deletion: its registration was overwritten by the Close"
			}
			if variant == 0 && !sawDelete {
				// (without an earlier Next the iterator may legitimately see nothing of x at all: inserted and deleted since it was created)
				if _, _, ok := tabs[0].Get(db.ReadTxn(), concw.IDIndex.Query("x")); ok {
					key, msg = "lost-write/tracker-registration", "x still present after its deletion"
				}
			}
			it2.Close()
			r.Count("pause_points_reached", 1)
		} else {
			pa.Resume()
			<-closed
		}
		r.Count("probes", 1)
		r.Case(vkit.NewHash().Str("queued-close").Int(int64(variant)).Sum(), true)
		if key != "" {
			r.Violation(key, idx, map[string]any{"scenario": "queued close", "variant": variant, "message": msg})
		}
	}
	// The removal of a change iterator's registration is a committed write too, made by Close() (or by the runtime's cleanup of an
	// unreachable iterator): when it is requested while a write transaction holds the table, it has to wait its turn, and the set of
	// registrations after both have finished must be without the closed one (c05r8-2: a Close that edits the table entry without the
	// table lock is overwritten by the open transaction's Commit). Observed through Metrics.DeleteTrackerCount, which the next Close
	// reports, and through the open transaction's own write.
	for variant := 0; variant < 4; variant++ {
		idx++
		if isReplay && !(replayPart == "forced" && replayIdx == idx) {
			continue
		}
		rec := &trackerCountRec{}
		db := statedb.New(statedb.WithMetrics(rec))
		tabs := concw.NewTables(db, "k", 1)
		var its []statedb.ChangeIterator[*concw.Row]
		nIter := 1 + variant%2
		for i := 0; i < nIter; i++ {
			w := db.WriteTxn(tabs[0])
			it, err := tabs[0].Changes(w)
			w.Commit()
			if err != nil {
				t.Fatal(err)
			}
			its = append(its, it)
		}
		w := db.WriteTxn(tabs[0])
		tabs[0].Insert(w, &concw.Row{ID: "x", V: 7})
		closedC := make(chan struct{})
		go func() { defer close(closedC); its[0].Close() }()
		select { // the Close queues behind w (or, broken, returns at once); either way w commits afterwards
		case <-closedC:
		case <-time.After(30 * time.Millisecond):
		}
		if variant >= 2 {
			w.Abort()
		} else {
			w.Commit()
		}
		key, msg := "", ""
		select {
		case <-closedC:
		case <-time.After(vkit.Patient(20 * time.Second)):
			key, msg = "blocked/close-after-writer", "an iterator Close() requested while a write transaction held the table has not returned 20 s after that transaction finished"
		}
		if key == "" {
			// a further iterator is registered and closed: its Close reports the number of registrations left
			w2 := db.WriteTxn(tabs[0])
			it3, err := tabs[0].Changes(w2)
			w2.Commit()
			if err != nil {
				t.Fatal(err)
			}
			it3.Close()
			want := nIter - 1
			if got := rec.get("k0"); got != want {
				key, msg = "lost-write/tracker-removal", fmt.Sprintf("%d iterator(s) registered, the first closed while a write transaction held the table (then %s), a further one registered and closed: %d registrations are left, want %d - the committed removal was overwritten", nIter, map[bool]string{true: "aborted", false: "committed"}[variant >= 2], got, want)
			}
			wantV := int64(7)
			if variant >= 2 {
				wantV = 0
			}
			if v := concw.Get(db.ReadTxn(), tabs[0], "x"); v != wantV && key == "" {
				key, msg = "lost-write/close-vs-writer", fmt.Sprintf("row x = %d after the writer finished and the queued Close ran, want %d", v, wantV)
			}
			for _, it := range its[1:] {
				it.Close()
			}
		}
		r.Count("probes", 1)
		r.Case(vkit.NewHash().Str("close-vs-open-writer").Int(int64(variant)).Sum(), true)
		if key != "" {
			r.Violation(key, idx, map[string]any{"scenario": "close requested while a writer holds the table", "variant": variant, "message": msg})
		}
	}
	for _, v := range ctl.Violations() {
		r.Violation("monitor/"+v[:min(40, len(v))], 0, map[string]any{"message": v})
	}
	for p, n := range ctl.Counts() {
		r.Count("hook:"+p, n)
	}
	r.Finish()
}

// ---- throughput: disjoint writers at full speed ----

// No delays, no race detector: 32 tables with one writer each committing as fast as it can (all commits meet at the root lock), a
// goroutine registering tables and one committing empty-set transactions. Every writer is the only one of its table, so each of
// its transactions must start from exactly what it committed last; a window of a few instructions in Commit or registerTable in
// which a stale root can be published shows as a counter that went back.
func TestVerif_DisjointThroughput(t *testing.T) {
	r := vkit.Start(t, "C05", "disjoint-throughput", "exploration", "32 tables, one writer goroutine per table incrementing its own counter in back-to-back transactions (every commit passes the root lock), "+
		"while one goroutine registers further tables and one commits write transactions with an empty table set; every third run instead: one writer holding both tables of a two-table database against three empty-set committers and occasional registrations; "+
		"each transaction must read exactly the counter its writer committed last and the revision it left; "+
		"non-trivial = all writers committed; distinct = (seed, run)")
	r.Require("commits")
	runs := vkit.N(3, 60)
	per := 10000
	r.ParallelCases(runs, 1, func(idx int) {
		if idx%3 == 2 {
			allTablesRun(r, idx, per*8)
			return
		}
		db := statedb.New()
		const nt = 32
		tabs := concw.NewTables(db, "d", nt)
		var stop atomic.Bool
		var wg, bg sync.WaitGroup
		var commits, registered, empties atomic.Int64
		var bad atomic.Int64
		for ti := 0; ti < nt; ti++ {
			wg.Add(1)
			go func(ti int) {
				defer wg.Done()
				tb := tabs[ti]
				var last int64
				var lastRev uint64
				for k := 0; k < per; k++ {
					w := db.WriteTxn(tb)
					got := concw.Get(w, tb, "seq")
					rev := tb.Revision(w)
					if got != last || rev != lastRev {
						if bad.Add(1) <= 3 {
							r.Violation("lost-write/throughput", idx, map[string]any{"message": fmt.Sprintf("table %d: transaction %d starts from seq=%d revision=%d, its only writer committed seq=%d revision=%d before", ti, k, got, rev, last, lastRev)})
						}
						w.Abort()
						return
					}
					tb.Insert(w, &concw.Row{ID: "seq", V: got + 1})
					lastRev = tb.Revision(w)
					w.Commit()
					last = got + 1
					commits.Add(1)
				}
			}(ti)
		}
		bg.Add(2)
		go func() {
			defer bg.Done()
			for k := 0; !stop.Load() && k < 2000; k++ {
				if _, err := statedb.NewTable(db, fmt.Sprintf("x%d", k), concw.IDIndex); err != nil {
					r.Violation("newtable-error/throughput", idx, map[string]any{"message": err.Error()})
					return
				}
				registered.Add(1)
				time.Sleep(50 * time.Microsecond)
			}
		}()
		go func() {
			defer bg.Done()
			for !stop.Load() {
				db.WriteTxn().Commit()
				empties.Add(1)
				time.Sleep(20 * time.Microsecond)
			}
		}()
		wg.Wait()
		stop.Store(true)
		bg.Wait()
		rt := db.ReadTxn()
		for ti, tb := range tabs {
			if got := concw.Get(rt, tb, "seq"); bad.Load() == 0 && got != int64(per) {
				r.Violation("lost-write/throughput", idx, map[string]any{"message": fmt.Sprintf("table %d: final seq=%d after %d committed increments", ti, got, per)})
			}
		}
		r.Count("commits", commits.Load())
		r.Count("tables_registered_during_run", registered.Load())
		r.Count("empty_set_commits", empties.Load())
		r.Case(uint64(idx), commits.Load() == int64(nt*per))
	})
	r.Finish()
}

// allTablesRun: one writer that holds EVERY table of the database (two tables) commits back to back while other goroutines
// commit write transactions with an empty table set and, now and then, register a table: the only other parties that publish a
// root. Holding all table locks excludes neither of them.
func allTablesRun(r *vkit.Run, idx int, n int) {
	db := statedb.New()
	tabs := concw.NewTables(db, "a", 2)
	var stop atomic.Bool
	var bg sync.WaitGroup
	var empties, registered atomic.Int64
	for g := 0; g < 3; g++ {
		bg.Add(1)
		go func() {
			defer bg.Done()
			for !stop.Load() {
				db.WriteTxn().Commit()
				empties.Add(1)
			}
		}()
	}
	var last int64
	var lastRev uint64
	commits := 0
	bad := false
	for k := 0; k < n && !bad; k++ {
		if k%(n/6+1) == n/12 {
			// (from here on the writer no longer holds every table; the next round starts over with a fresh database)
			if _, err := statedb.NewTable(db, fmt.Sprintf("late%d", k), concw.IDIndex); err != nil {
				r.Violation("newtable-error/throughput", idx, map[string]any{"message": err.Error()})
				break
			}
			registered.Add(1)
		}
		w := db.WriteTxn(tabs[0], tabs[1])
		got, rev := concw.Get(w, tabs[0], "seq"), tabs[0].Revision(w)
		if got != last || rev != lastRev || concw.Get(w, tabs[1], "seq") != last {
			r.Violation("lost-write/throughput", idx, map[string]any{"message": fmt.Sprintf("all-tables writer: transaction %d starts from seq=%d/%d revision=%d, it committed seq=%d revision=%d before (empty-set commits so far: %d)", k, got, concw.Get(w, tabs[1], "seq"), rev, last, lastRev, empties.Load())})
			w.Abort()
			bad = true
			break
		}
		tabs[0].Insert(w, &concw.Row{ID: "seq", V: got + 1})
		tabs[1].Insert(w, &concw.Row{ID: "seq", V: got + 1})
		lastRev = tabs[0].Revision(w)
		w.Commit()
		last = got + 1
		commits++
	}
	stop.Store(true)
	bg.Wait()
	r.Count("commits", int64(commits))
	r.Count("empty_set_commits", empties.Load())
	r.Count("tables_registered_during_run", registered.Load())
	r.Case(uint64(idx), commits == n)
}

// ---- stress ----

type histResult struct {
	ops      int
	overlap  bool
	verdict  string
	detail   string
	counters []int64
	commits  []int64
}

func runHistory(r *vkit.Run, ctl *hookctl.Ctl, idx int) {
	rng := r.Rand(idx)
	ntab := 1 + rng.IntN(4)
	nclients := 4 + rng.IntN(7)
	opsPer := 6 + rng.IntN(20)
	db := statedb.New()
	tabs := concw.NewTables(db, "t", ntab)
	names := make([]string, ntab)
	for i, t := range tabs {
		names[i] = fmt.Sprintf("h%d/%s", idx, t.Name())
	}
	rec := concw.NewRecorder()
	var mu sync.Mutex
	commits := make([]int64, ntab)
	pre := make([]map[int64]int, ntab)
	for i := range pre {
		pre[i] = map[int64]int{}
	}
	var wg sync.WaitGroup
	start := make(chan struct{})
	for c := 0; c < nclients; c++ {
		wg.Add(1)
		go func(c int) {
			defer wg.Done()
			crng := r.Rand(idx, uint64(c)+1)
			handle := fmt.Sprintf("h%dc%d", idx, c)
			h := db.NewHandle(handle)
			<-start
			for o := 0; o < opsPer; o++ {
				// random subset in random order with duplicates
				var set []int
				for i := 0; i < ntab; i++ {
					if crng.IntN(2) == 0 {
						set = append(set, i)
					}
				}
				if len(set) == 0 {
					set = []int{crng.IntN(ntab)}
				}
				if crng.IntN(4) == 0 {
					// snapshot read
					call := rec.Now()
					rt := h.ReadTxn()
					seen := make([]int64, len(set))
					for i, ti := range set {
						seen[i] = concw.Get(rt, tabs[ti], "seq")
					}
					rec.Add(c, concw.Op{Kind: "snap", Tables: set}, call, concw.Out{Seen: seen}, rec.Now())
					continue
				}
				metas := make([]statedb.TableMeta, 0, len(set)+1)
				for _, ti := range set {
					metas = append(metas, tabs[ti])
				}
				if crng.IntN(3) == 0 {
					metas = append(metas, tabs[set[0]])
				}
				crng.Shuffle(len(metas), func(i, j int) { metas[i], metas[j] = metas[j], metas[i] })
				commit := crng.IntN(10) > 0
				call := rec.Now()
				w := h.WriteTxn(metas...)
				held := make([]string, len(set))
				for i, ti := range set {
					held[i] = names[ti]
				}
				ctl.Hold(handle, held)
				seen := make([]int64, len(set))
				for i, ti := range set {
					seen[i] = concw.Get(w, tabs[ti], "seq")
					tabs[ti].Insert(w, &concw.Row{ID: "seq", V: seen[i] + 1, Tag: handle})
				}
				if commit {
					w.Commit()
				} else {
					w.Abort()
				}
				ret := rec.Now()
				rec.Add(c, concw.Op{Kind: "txn", Tables: set, Commit: commit}, call, concw.Out{Seen: seen}, ret)
				if commit {
					mu.Lock()
					for i, ti := range set {
						commits[ti]++
						pre[ti][seen[i]]++
					}
					mu.Unlock()
				}
			}
		}(c)
	}
	close(start)
	wg.Wait()
	ops := rec.Ops()
	h := vkit.NewHash()
	sort.Slice(ops, func(i, j int) bool { return ops[i].Call < ops[j].Call })
	for _, o := range ops {
		h.Int(int64(o.ClientId)).Str(fmt.Sprint(o.Input, o.Output))
	}
	r.Case(h.Sum(), nclients >= 2)
	r.Count("recorded_ops", int64(len(ops)))
	rt := db.ReadTxn()
	for ti := range tabs {
		got := concw.Get(rt, tabs[ti], "seq")
		if got != commits[ti] {
			r.Violation("lost-update/counter", idx, map[string]any{"message": fmt.Sprintf("table %d: sequence object is %d after %d committed transactions", ti, got, commits[ti])})
		}
		for v, n := range pre[ti] {
			if n != 1 {
				r.Violation("lost-update/pre-value-twice", idx, map[string]any{"message": fmt.Sprintf("table %d: %d committed transactions started from sequence value %d", ti, n, v)})
			}
		}
	}
	verdict, detail := concw.Check(ntab, ops, 60*time.Second)
	r.Count("porcupine_"+verdict, 1)
	switch verdict {
	case "illegal":
		r.Violation("not-serializable", idx, map[string]any{"message": "porcupine: history is not strictly serializable against the counter-vector model", "history": detail})
	case "unknown":
		r.Inconclusive(fmt.Sprintf("porcupine timeout on history %d (%d ops)", idx, len(ops)))
	}
	if r.WantSample() {
		var lines []string
		m := concw.Model(ntab)
		for i, o := range ops {
			if i >= 25 {
				break
			}
			lines = append(lines, fmt.Sprintf("c%d [%d,%d] %s", o.ClientId, o.Call, o.Return, m.DescribeOperation(o.Input, o.Output)))
		}
		r.Sample(map[string]any{"case": idx, "tables": ntab, "clients": nclients, "ops": len(ops), "porcupine": verdict, "first_ops": lines})
	}
}

func TestVerifRace_Stress(t *testing.T) {
	r := vkit.Start(t, "C05", "stress", "fault_enumeration", ruleStress)
	r.Require("recorded_ops", "porcupine_ok", "holder_checks", "lock_acquisitions")
	ctl := hookctl.Install(vkit.Seed())
	defer ctl.Uninstall()
	ctl.SetStress(true)
	n := vkit.N(120, 2500)
	r.ParallelCases(n, 3, func(i int) { runHistory(r, ctl, i) })
	for _, v := range ctl.Violations() {
		key := "monitor/lock-order"
		if len(v) > 11 && v[:11] == "two holders" {
			key = "monitor/two-holders"
		}
		r.Violation(key, 0, map[string]any{"message": v})
	}
	_, acqs := ctl.LockStats()
	r.Count("lock_acquisitions", acqs)
	r.Count("holder_checks", ctl.HoldChecks())
	r.Count("interleaving_signatures", int64(ctl.Signatures()))
	for p, c := range ctl.Counts() {
		r.Count("hook:"+p, c)
	}
	r.Finish()
}

// ---- tables registered at the same instant ----

// Registration is a write of the root like any commit. k goroutines enter NewTable behind a spin barrier; afterwards every table
// gets its own writer committing a row of its own (sequentially and then all at once). Each table must then hold exactly its own
// rows: two registrations that ended up in one slot of the root make two "tables" one, and the writers - each correctly holding
// the lock of its table - overwrite each other (c05r8-1).
func TestVerif_ConcurrentRegistration(t *testing.T) {
	r := vkit.Start(t, "C05", "concurrent-registration", "exploration", "rounds of 2-8 NewTable calls released by a spin barrier on one database (half of the rounds with a committer running on an earlier table), then one writer per new table "+
		"committing rows named after its table, first one after the other, then simultaneously; every table must contain exactly its own rows and every registered name must be listed once; "+
		"non-trivial = all registrations of the round succeeded; distinct = round index")
	r.Require("rounds", "tables_checked")
	rounds := vkit.N(400, 20000)
	for round := 0; round < rounds && r.Violations() < 3; round++ {
		rng := r.Rand(round)
		db := statedb.New()
		base := concw.NewTables(db, "base", 1)
		k := 2 + rng.IntN(7)
		var wg sync.WaitGroup
		var ready, goFlag atomic.Int32
		tbls := make([]statedb.RWTable[*concw.Row], k)
		errs := make([]error, k)
		for g := 0; g < k; g++ {
			wg.Add(1)
			go func(g int) {
				defer wg.Done()
				ready.Add(1)
				for goFlag.Load() == 0 {
				}
				tbls[g], errs[g] = statedb.NewTable(db, fmt.Sprintf("c%d", g), concw.IDIndex, concw.TagIndex)
			}(g)
		}
		stopC := make(chan struct{})
		var cwg sync.WaitGroup
		commits := 0
		if round%2 == 0 {
			cwg.Add(1)
			go func() {
				defer cwg.Done()
				for {
					select {
					case <-stopC:
						return
					default:
					}
					w := db.WriteTxn(base[0])
					base[0].Insert(w, &concw.Row{ID: "b", V: int64(commits)})
					w.Commit()
					commits++
				}
			}()
		}
		for ready.Load() < int32(k) {
			runtime.Gosched()
		}
		goFlag.Store(1)
		wg.Wait()
		close(stopC)
		cwg.Wait()
		okAll := true
		for g := range tbls {
			if errs[g] != nil || tbls[g] == nil {
				okAll = false
				r.Violation("registration-refused", round, map[string]any{"message": fmt.Sprintf("NewTable(c%d) with a fresh name failed: %v", g, errs[g])})
			}
		}
		if !okAll {
			continue
		}
		// one after the other
		for g, tb := range tbls {
			w := db.WriteTxn(tb)
			tb.Insert(w, &concw.Row{ID: fmt.Sprintf("c%d-seq", g), V: int64(g)})
			w.Commit()
		}
		// all at once
		goFlag.Store(0)
		ready.Store(0)
		for g, tb := range tbls {
			wg.Add(1)
			go func(g int, tb statedb.RWTable[*concw.Row]) {
				defer wg.Done()
				ready.Add(1)
				for goFlag.Load() == 0 {
				}
				for i := 0; i < 3; i++ {
					w := db.WriteTxn(tb)
					tb.Insert(w, &concw.Row{ID: fmt.Sprintf("c%d-par%d", g, i), V: int64(g)})
					w.Commit()
				}
			}(g, tb)
		}
		for ready.Load() < int32(k) {
			runtime.Gosched()
		}
		goFlag.Store(1)
		wg.Wait()
		rt := db.ReadTxn()
		names := map[string]int{}
		for _, m := range db.GetTables(rt) {
			names[m.Name()]++
		}
		for g, tb := range tbls {
			r.Count("tables_checked", 1)
			if names[fmt.Sprintf("c%d", g)] != 1 {
				r.Violation("lost-table/concurrent-registration", round, map[string]any{"message": fmt.Sprintf("round %d: table c%d, registered together with %d others, is listed %d times in the committed state", round, g, k-1, names[fmt.Sprintf("c%d", g)])})
				continue
			}
			want := map[string]bool{fmt.Sprintf("c%d-seq", g): true}
			for i := 0; i < 3; i++ {
				want[fmt.Sprintf("c%d-par%d", g, i)] = true
			}
			got := map[string]bool{}
			for row := range tb.All(rt) {
				got[row.ID] = true
			}
			same := len(got) == len(want) && tb.NumObjects(rt) == len(want)
			for id := range want {
				same = same && got[id]
			}
			if !same {
				r.Violation("lost-write/concurrent-registration", round, map[string]any{"message": fmt.Sprintf("round %d: table c%d (one of %d registered at the same instant) holds %v after its only writer committed %v: committed writes of correctly serialised writers were lost or landed in another table", round, g, k, keys(got), keys(want))})
			}
		}
		if round%2 == 0 {
			if v := concw.Get(rt, base[0], "b"); commits > 0 && v != int64(commits-1) {
				r.Violation("lost-write/registration-vs-commit", round, map[string]any{"message": fmt.Sprintf("round %d: the committer's last commit wrote %d, the table holds %d", round, commits-1, v)})
			}
		}
		r.Count("rounds", 1)
		r.Case(uint64(round), true)
	}
	r.Finish()
}

func keys(m map[string]bool) []string {
	out := make([]string, 0, len(m))
	for k := range m {
		out = append(out, k)
	}
	sort.Strings(out)
	return out
}

// trackerCountRec keeps the last Metrics.DeleteTrackerCount per table.
type trackerCountRec struct {
	statedb.NopMetrics
	mu sync.Mutex
	n  map[string]int
}

func (m *trackerCountRec) DeleteTrackerCount(t string, n int) {
	m.mu.Lock()
	if m.n == nil {
		m.n = map[string]int{}
	}
	m.n[t] = n
	m.mu.Unlock()
}

func (m *trackerCountRec) get(t string) int {
	m.mu.Lock()
	defer m.mu.Unlock()
	if v, ok := m.n[t]; ok {
		return v
	}
	return -1
}
