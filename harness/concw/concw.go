// Package concw has the concurrent workload pieces shared by the hook-based checks (C02, C05, C10):
// counter tables, transfer transactions and a client-boundary history recorder for porcupine.
package concw

import (
	"fmt"
	"sort"
	"strings"
	"sync"
	"time"

	"github.com/anishathalye/porcupine"
	"github.com/cilium/statedb"
	"github.com/cilium/statedb/index"
)

// Row is the object of the workload tables.
type Row struct {
	ID  string
	V   int64
	Tag string // unique tag of the transaction that wrote it
}

func (r *Row) TableHeader() []string { return []string{"ID", "V", "Tag"} }
func (r *Row) TableRow() []string    { return []string{r.ID, fmt.Sprint(r.V), r.Tag} }

var IDIndex = statedb.Index[*Row, string]{
	Name:       "id",
	FromObject: func(r *Row) index.KeySet { return index.NewKeySet(index.String(r.ID)) },
	FromKey:    index.String,
	FromString: index.FromString,
	Unique:     true,
}

var TagIndex = statedb.Index[*Row, string]{
	Name:       "tag",
	FromObject: func(r *Row) index.KeySet { return index.NewKeySet(index.String(r.Tag)) },
	FromKey:    index.String,
	FromString: index.FromString,
	Unique:     false,
}

// NewTables registers n tables named <prefix>0..n-1.
func NewTables(db *statedb.DB, prefix string, n int) []statedb.RWTable[*Row] {
	out := make([]statedb.RWTable[*Row], n)
	for i := range out {
		t, err := statedb.NewTable(db, fmt.Sprintf("%s%d", prefix, i), IDIndex, TagIndex)
		if err != nil {
			panic(err)
		}
		out[i] = t
	}
	return out
}

// Get returns the value of a row (0 if absent).
func Get(txn statedb.ReadTxn, t statedb.Table[*Row], id string) int64 {
	r, _, ok := t.Get(txn, IDIndex.Query(id))
	if !ok {
		return 0
	}
	return r.V
}

// ---- history recording for porcupine ----

// Op is the input of one recorded client operation.
type Op struct {
	Kind   string // "txn" (increments the counters of Tables if it commits) or "snap" (reads the counters of Tables)
	Tables []int
	Commit bool
}

// Out is the observed output: counters seen (pre-values for txn).
type Out struct {
	Seen []int64
}

// Recorder collects operations with one monotonic clock.
type Recorder struct {
	mu    sync.Mutex
	start time.Time
	ops   []porcupine.Operation
}

func NewRecorder() *Recorder { return &Recorder{start: time.Now()} }

// Now returns the monotonic time in nanoseconds.
func (r *Recorder) Now() int64 { return int64(time.Since(r.start)) }

// Add records a finished operation.
func (r *Recorder) Add(client int, in Op, call int64, out Out, ret int64) {
	r.mu.Lock()
	r.ops = append(r.ops, porcupine.Operation{ClientId: client, Input: in, Call: call, Output: out, Return: ret})
	r.mu.Unlock()
}

// Ops returns the recorded operations.
func (r *Recorder) Ops() []porcupine.Operation {
	r.mu.Lock()
	defer r.mu.Unlock()
	return append([]porcupine.Operation(nil), r.ops...)
}

// Model is the sequential specification: state = counter vector (encoded as a string for comparability);
// a committed transaction must have observed the current counters of its tables and increments them;
// aborted transactions and snapshots must observe the current counters and change nothing.
func Model(ntables int) porcupine.Model {
	type state = string
	enc := func(v []int64) state {
		parts := make([]string, len(v))
		for i, x := range v {
			parts[i] = fmt.Sprint(x)
		}
		return strings.Join(parts, ",")
	}
	dec := func(s state) []int64 {
		v := make([]int64, ntables)
		if s == "" {
			return v
		}
		for i, p := range strings.Split(s, ",") {
			fmt.Sscan(p, &v[i])
		}
		return v
	}
	return porcupine.Model{
		Init: func() any { return enc(make([]int64, ntables)) },
		Step: func(st, in, out any) (bool, any) {
			v := dec(st.(state))
			op := in.(Op)
			o := out.(Out)
			for i, t := range op.Tables {
				if o.Seen[i] != v[t] {
					return false, st
				}
			}
			if op.Kind == "txn" && op.Commit {
				for _, t := range op.Tables {
					v[t]++
				}
				return true, enc(v)
			}
			return true, st
		},
		Equal: func(a, b any) bool { return a.(state) == b.(state) },
		DescribeOperation: func(in, out any) string {
			op := in.(Op)
			return fmt.Sprintf("%s%v commit=%v saw %v", op.Kind, op.Tables, op.Commit, out.(Out).Seen)
		},
	}
}

// Check runs porcupine; returns "ok", "illegal" or "unknown".
func Check(ntables int, ops []porcupine.Operation, timeout time.Duration) (string, string) {
	res, info := porcupine.CheckOperationsVerbose(Model(ntables), ops, timeout)
	switch res {
	case porcupine.Ok:
		return "ok", ""
	case porcupine.Illegal:
		// describe the longest linearizable prefix per partition briefly
		_ = info
		sort.Slice(ops, func(i, j int) bool { return ops[i].Call < ops[j].Call })
		var b strings.Builder
		m := Model(ntables)
		for i, o := range ops {
			if i > 60 {
				b.WriteString("...\n")
				break
			}
			fmt.Fprintf(&b, "c%d [%d,%d] %s\n", o.ClientId, o.Call, o.Return, m.DescribeOperation(o.Input, o.Output))
		}
		return "illegal", b.String()
	}
	return "unknown", ""
}
