package concw

import (
	"fmt"
	"sync"
	"sync/atomic"
	"time"

	"github.com/cilium/statedb"

	"verifharness/vkit"
)

// RunConsumers is the real-time, race-detector variant of the change-iterator oracle: writers insert and delete rows while
// consumer goroutines follow the table through their own change iterators with the collector running every millisecond.
// Oracle per consumer: revisions strictly increase; whenever Next(S) has been drained (or returned an open channel) the
// replay of everything delivered equals the contents of S (objects and revisions) - S is the immutable snapshot passed to
// Next, so this can be checked under full concurrency; after the writers have stopped every consumer must converge to the
// final state, and a consumer blocked on the channel returned by Next must be woken by every later commit (bounded by 20 s).
func RunConsumers(r *vkit.Run, idx int, lagging bool) {
	rng := r.Rand(idx)
	db := statedb.New()
	db.VerifSetGCInterval(time.Millisecond)
	db.Start()
	defer db.Stop()
	tbl := NewTables(db, "c", 1)[0]
	nwriters, nconsumers := 2+rng.IntN(3), 2+rng.IntN(3)
	opsPer := 150 + rng.IntN(200)
	var writersDone atomic.Bool
	var wg, cwg sync.WaitGroup
	var delivered, drains atomic.Int64
	fail := func(key, f string, a ...any) {
		r.Violation(key, idx, map[string]any{"message": fmt.Sprintf(f, a...), "writers": nwriters, "consumers": nconsumers, "lagging": lagging})
	}
	type rowv struct {
		v   int64
		rev uint64
	}
	for c := 0; c < nconsumers; c++ {
		w := db.WriteTxn(tbl)
		it, err := tbl.Changes(w)
		w.Commit()
		if err != nil {
			fail("changes-error", "%v", err)
			return
		}
		cwg.Add(1)
		go func(c int, it statedb.ChangeIterator[*Row]) {
			defer cwg.Done()
			defer it.Close()
			crng := r.Rand(idx, uint64(c)+50)
			replay := map[string]rowv{}
			var lastRev uint64
			finalSeen := false
			var evlog []string
			logf := func(f string, a ...any) {
				evlog = append(evlog, fmt.Sprintf(f, a...))
				if len(evlog) > 80 {
					evlog = evlog[len(evlog)-80:]
				}
			}
			for round := 0; ; round++ {
				snap := db.ReadTxn()
				seq, watch := it.Next(snap)
				logf("Next(S rev=%d)", tbl.Revision(snap))
				closed := false
				select {
				case <-watch:
					closed = true
				default:
				}
				n := 0
				limit := -1
				if crng.IntN(4) == 0 {
					limit = 1 + crng.IntN(3)
				}
				full := true
				for ch, rev := range seq {
					n++
					delivered.Add(1)
					if rev <= lastRev {
						fail("not-increasing", "consumer %d: revision %d delivered after %d", c, rev, lastRev)
						return
					}
					lastRev = rev
					logf("  %s deleted=%v v=%d rev=%d", ch.Object.ID, ch.Deleted, ch.Object.V, rev)
					if ch.Deleted {
						delete(replay, ch.Object.ID)
					} else {
						replay[ch.Object.ID] = rowv{ch.Object.V, rev}
					}
					if limit > 0 && n == limit {
						full = false
						break
					}
				}
				// An open channel while a commit is between its root store and its notification says nothing about S (S may already
				// be newer than the channel); convergence is judged when a closed-channel Next was drained, and at the very end when
				// no commit is in flight.
				quiescentFinal := !closed && writersDone.Load() && tbl.Revision(db.ReadTxn()) == tbl.Revision(snap) && round > 0 && finalSeen
				// (whether the channel was already closed when Next returned it cannot be observed reliably under concurrency: it may
				// close right after; a non-empty, fully drained sequence proves that this call refreshed against S)
				if n > 0 && full || quiescentFinal {
					// converged with the snapshot that was passed to Next
					drains.Add(1)
					cnt := 0
					for row, rev := range tbl.All(snap) {
						cnt++
						if got, ok := replay[row.ID]; !ok || got.v != row.V || got.rev != rev {
							fail("replay-differs", "consumer %d: after draining Next(S), replay of %s is %+v (present=%v) but S has v=%d rev=%d; closed=%v full=%v; events: %v", c, row.ID, got, ok, row.V, rev, closed, full, evlog)
							return
						}
					}
					if cnt != len(replay) {
						fail("replay-differs", "consumer %d: after draining Next(S), replay has %d objects but S has %d (a deletion was not delivered)", c, len(replay), cnt)
						return
					}
				}
				if lagging && crng.IntN(3) == 0 {
					time.Sleep(time.Duration(crng.IntN(3000)) * time.Microsecond)
				}
				if !closed {
					if quiescentFinal {
						return
					}
					if writersDone.Load() && tbl.Revision(db.ReadTxn()) == tbl.Revision(snap) {
						// the last commit has been published; give its notification time to complete, then judge once more
						time.Sleep(2 * time.Millisecond)
						finalSeen = true
						continue
					}
					// block on the channel: every later commit to the table must wake us up
					select {
					case <-watch:
					case <-time.After(vkit.Patient(20 * time.Second)):
						if tbl.Revision(db.ReadTxn()) != tbl.Revision(snap) {
							fail("consumer-never-woken", "consumer %d: blocked on the channel returned by Next for 20 s although the table changed (revision %d -> %d)", c, tbl.Revision(snap), tbl.Revision(db.ReadTxn()))
							return
						}
						if writersDone.Load() {
							return
						}
					}
				}
			}
		}(c, it)
	}
	for w := 0; w < nwriters; w++ {
		wg.Add(1)
		go func(w int) {
			defer wg.Done()
			wr := r.Rand(idx, uint64(w)+1)
			for o := 0; o < opsPer; o++ {
				wt := db.WriteTxn(tbl)
				for k := 0; k < 1+wr.IntN(3); k++ {
					id := fmt.Sprint(wr.IntN(12))
					if wr.IntN(5) < 2 {
						tbl.Delete(wt, &Row{ID: id})
					} else {
						tbl.Insert(wt, &Row{ID: id, V: int64(w*100000 + o)})
					}
				}
				if wr.IntN(10) == 0 {
					wt.Abort()
				} else {
					wt.Commit()
				}
				if wr.IntN(4) == 0 {
					time.Sleep(time.Duration(wr.IntN(300)) * time.Microsecond)
				}
			}
		}(w)
	}
	wg.Wait()
	writersDone.Store(true)
	// one last commit wakes every blocked consumer
	wt := db.WriteTxn(tbl)
	tbl.Insert(wt, &Row{ID: "final", V: 1})
	wt.Commit()
	done := make(chan struct{})
	go func() { cwg.Wait(); close(done) }()
	select {
	case <-done:
	case <-time.After(vkit.Patient(60 * time.Second)):
		fail("consumers-stuck", "consumers did not converge within 60 s after the writers stopped")
	}
	r.Count("changes_delivered", delivered.Load())
	r.Count("drain_checks", drains.Load())
	r.Case(vkit.NewHash().Int(int64(idx)).Int(int64(nwriters)).Int(int64(nconsumers)).Sum(), delivered.Load() > 0)
	if r.WantSample() {
		r.Sample(map[string]any{"case": idx, "writers": nwriters, "consumers": nconsumers, "ops_per_writer": opsPer, "lagging_consumers": lagging, "changes_delivered": delivered.Load(), "drain_checks": drains.Load()})
	}
}
