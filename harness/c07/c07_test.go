package c07

import (
	"testing"

	"verifharness/concw"
	"verifharness/dbsim"
	"verifharness/vkit"
)

const rule = "random histories under virtual time with the DB started (graveyard collection every 1 ms of virtual time): writes, up to 4 change iterators per table created at random points " +
	"(also inside multi-operation transactions and in transactions that abort), Next with a fresh ReadTxn, an older monotone snapshot or a WriteTxn holding pending inserts and deletes, full or partial " +
	"consumption, Close, time jumps that let collection run between any two steps; oracle: strictly increasing revisions, only committed changes, replay == snapshot whenever the sequence of a closed-channel Next " +
	"is drained or Next returns an open channel, deletions after creation delivered, open channel closed by the next table-changing commit and not by aborts; " +
	"non-trivial = at least 5 change-stream verdicts; distinct = hash of the operation log"

var opts = dbsim.Opts{Tables: 2, Txns: 60, MaxOps: 6, ProbesPerIndex: 1, AbortPct: 20, Iterators: true, Retain: 4,
	Report: map[string]bool{"changes": true}}

func TestVerif_Histories(t *testing.T) {
	r := vkit.Start(t, "C07", "histories", "exploration", rule)
	r.Assume("Next is called with monotonically newer snapshots, none older than the table revision at which the iterator was created", "iterators are kept reachable while open", "a deletion is identified by its revision window (revision before, revision after] of the deleting operation")
	r.Require("change_stream_checks", "commits")
	dbsim.BubbleCases(t, r, vkit.N(2000, 100000), opts, func(s *dbsim.Sim) bool { return s.ChangeChecks() >= 5 })
	r.Finish()
}

// Real-time variant under the race detector with a 1 ms collection interval.
func TestVerifRace_Consumers(t *testing.T) {
	r := vkit.Start(t, "C07", "consumers-race", "exploration", "2-4 writers (inserts, deletes, 10% aborts) and 2-4 consumer goroutines with their own change iterators under the race detector, collector every 1 ms: "+
		"strictly increasing revisions, replay == the snapshot passed to Next whenever it was drained, final convergence, blocked consumers woken by every later commit; non-trivial = changes were delivered; distinct = (seed, case)")
	r.Require("changes_delivered", "drain_checks")
	r.ParallelCases(vkit.N(12, 300), 2, func(i int) { concw.RunConsumers(r, i, false) })
	r.Finish()
}
