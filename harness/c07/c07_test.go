package c07

import (
	"context"
	"fmt"
	"runtime"
	"sync"
	"testing"
	"testing/synctest"
	"time"

	"github.com/cilium/statedb"

	"verifharness/concw"
	"verifharness/dbsim"
	"verifharness/hookctl"
	"verifharness/vkit"
)

const rule = "random histories under virtual time with the DB started (graveyard collection every 1 ms of virtual time): writes, up to 4 change iterators per table created at random points " +
	"(also inside multi-operation transactions and in transactions that abort), Next with a fresh ReadTxn, an older monotone snapshot or a WriteTxn holding pending inserts and deletes, full or partial " +
	"consumption, Close, time jumps that let collection run between any two steps; oracle: strictly increasing revisions, only committed changes, replay == snapshot whenever the sequence of a closed-channel Next " +
	"is drained or Next returns an open channel, deletions after creation delivered, open channel closed by the next table-changing commit and not by aborts; " +
	"non-trivial = at least 5 change-stream verdicts; distinct = hash of the operation log"

var opts = dbsim.Opts{Tables: 2, Txns: 60, MaxOps: 6, ProbesPerIndex: 1, AbortPct: 20, Iterators: true, Retain: 4,
	Report: map[string]bool{"changes": true}}

func TestVerif_Histories(t *testing.T) {
	r := vkit.Start(t, "C07", "histories", "exploration", rule)
	r.Assume("Next is called with monotonically newer snapshots, none older than the table revision at which the iterator was created", "iterators are kept reachable while open", "a deletion is identified by its revision window (revision before, revision after] of the deleting operation")
	r.Require("change_stream_checks", "commits")
	ctl := hookctl.Install(vkit.Seed())
	defer ctl.Uninstall()
	var monitors sync.Map
	ctl.OnPoint(func(point, handle string) {
		if f, ok := monitors.Load(handle); ok {
			f.(func(string, string))(point, handle)
		}
	})
	o := opts
	o.Ctl = ctl // (for the queued-Close probe: Close held up before its table lock while another iterator is registered)
	o.OnSim = func(s *dbsim.Sim) func() {
		monitors.Store(s.Handle, s.RegistrationMonitor(ctl)) // table registrations run into some of the commits
		return func() { monitors.Delete(s.Handle) }
	}
	dbsim.BubbleCases(t, r, vkit.N(2000, 100000), o, func(s *dbsim.Sim) bool { return s.ChangeChecks() >= 5 })
	r.Finish()
}

// Real-time variant under the race detector with a 1 ms collection interval.
func TestVerifRace_Consumers(t *testing.T) {
	r := vkit.Start(t, "C07", "consumers-race", "exploration", "2-4 writers (inserts, deletes, 10% aborts) and 2-4 consumer goroutines with their own change iterators under the race detector, collector every 1 ms: "+
		"strictly increasing revisions, replay == the snapshot passed to Next whenever it was drained, final convergence, blocked consumers woken by every later commit; non-trivial = changes were delivered; distinct = (seed, case)")
	r.Require("changes_delivered", "drain_checks")
	r.ParallelCases(vkit.N(12, 300), 2, func(i int) { concw.RunConsumers(r, i, false) })
	r.Finish()
}

// Observable: the stream adapter is driven by the same kind of histories; at every quiescent point (virtual time) the replay of the
// observed events must equal the table.
func TestVerif_Observable(t *testing.T) {
	r := vkit.Start(t, "C07", "observable", "exploration", "statedb.Observable under virtual time: random committed and aborted write transactions (inserts, updates, deletes) with pauses; at every quiescent point "+
		"the replay of all observed events equals the table contents (objects and revisions), revisions are strictly increasing, nothing uncommitted is observed; non-trivial = at least 5 events observed; distinct = hash of the operation log")
	r.Require("events_observed", "quiescent_checks")
	n := vkit.N(400, 20000)
	for c := 0; c < n; c++ {
		if part, idx, ok := vkit.ReplayCase(); ok && !(part == "observable" && idx == c) {
			continue
		}
		rng := r.Rand(c)
		h := vkit.NewHash()
		events := 0
		synctest.Test(t, func(t *testing.T) {
			db := statedb.New()
			db.VerifSetGCInterval(time.Millisecond)
			db.Start()
			defer db.Stop()
			tbl := concw.NewTables(db, "o", 1)[0]
			ctx, cancel := context.WithCancel(context.Background())
			type ev struct {
				id  string
				v   int64
				rev uint64
				del bool
			}
			var mu sync.Mutex
			var got []ev
			done := make(chan struct{})
			statedb.Observable[*concw.Row](db, tbl).Observe(ctx, func(ch statedb.Change[*concw.Row]) {
				mu.Lock()
				got = append(got, ev{ch.Object.ID, ch.Object.V, ch.Revision, ch.Deleted})
				mu.Unlock()
			}, func(error) { close(done) })
			model := map[string]int64{}
			var log []string
			steps := 10 + rng.IntN(30)
			for s := 0; s < steps; s++ {
				w := db.WriteTxn(tbl)
				tm := map[string]int64{}
				for k, v := range model {
					tm[k] = v
				}
				for k := 0; k < 1+rng.IntN(3); k++ {
					id := fmt.Sprint(rng.IntN(6))
					if rng.IntN(3) == 0 {
						tbl.Delete(w, &concw.Row{ID: id})
						delete(tm, id)
						log = append(log, "del "+id)
					} else {
						v := int64(s*10 + k + 1)
						tbl.Insert(w, &concw.Row{ID: id, V: v})
						tm[id] = v
						log = append(log, fmt.Sprintf("ins %s=%d", id, v))
					}
				}
				if rng.IntN(5) == 0 {
					w.Abort()
					log = append(log, "abort")
				} else {
					w.Commit()
					model = tm
					log = append(log, "commit")
				}
				if rng.IntN(3) == 0 {
					time.Sleep(time.Duration(rng.IntN(4)) * time.Millisecond)
					synctest.Wait()
					// quiescent: replay == table
					mu.Lock()
					replay := map[string]ev{}
					var last uint64
					for _, e := range got {
						if e.rev <= last {
							r.Violation("observable/not-increasing", c, map[string]any{"message": fmt.Sprintf("event revision %d after %d", e.rev, last), "log": log})
						}
						last = e.rev
						if e.del {
							delete(replay, e.id)
						} else {
							replay[e.id] = e
						}
					}
					mu.Unlock()
					rt := db.ReadTxn()
					cnt := 0
					for row, rev := range tbl.All(rt) {
						cnt++
						if e, ok := replay[row.ID]; !ok || e.v != row.V || e.rev != rev || model[row.ID] != row.V {
							r.Violation("observable/replay-differs", c, map[string]any{"message": fmt.Sprintf("at a quiescent point the replay of %s is %+v (present=%v), table has v=%d rev=%d, model %d", row.ID, e, ok, row.V, rev, model[row.ID]), "log": log})
						}
					}
					if cnt != len(replay) {
						r.Violation("observable/replay-differs", c, map[string]any{"message": fmt.Sprintf("at a quiescent point the replay has %d objects, the table %d", len(replay), cnt), "log": log})
					}
					r.Count("quiescent_checks", 1)
				}
			}
			cancel()
			// one more commit wakes the observer so that it notices the cancellation
			w := db.WriteTxn(tbl)
			tbl.Insert(w, &concw.Row{ID: "bye"})
			w.Commit()
			<-done
			mu.Lock()
			events = len(got)
			mu.Unlock()
			for _, l := range log {
				h.Str(l)
			}
			if r.WantSample() {
				r.Sample(map[string]any{"case": c, "ops": log[:min(len(log), 30)], "events": events})
			}
		})
		r.Count("events_observed", int64(events))
		r.Case(h.Sum(), events >= 5)
	}
	r.Finish()
}

// Fault enumeration of the commit window: the committer is paused at each hook point inside Commit while a consumer whose
// iterator is exhausted calls Next with a fresh snapshot. Whatever Next answers, the consumer must not miss the change: either the
// change is delivered, or the returned channel is closed once the committer has finished (no further commit happens).
func TestVerif_NextInCommitWindow(t *testing.T) {
	r := vkit.Start(t, "C07", "commit-window", "exploration", "committer paused at commit.beforeRootLock / rootLocked / afterRootStore / afterNotify / afterUnlock while a consumer with an exhausted iterator calls Next(fresh snapshot): "+
		"either the pending change is delivered or the channel returned by Next closes once the commit has finished, and the following Next delivers it; non-trivial = pause point reached; distinct = (point, round)")
	r.Require("pause_points_reached")
	ctl := hookctl.Install(vkit.Seed())
	defer ctl.Uninstall()
	pts := []string{"commit.beforeRootLock", "commit.rootLocked", "commit.afterRootStore", "commit.afterNotify", "commit.afterUnlock"}
	rounds := vkit.N(20, 400)
	idx := 0
	for round := 0; round < rounds; round++ {
		for _, p := range pts {
			idx++
			if r.Violations() >= 3 {
				continue
			}
			db := statedb.New()
			tbl := concw.NewTables(db, "w", 1)[0]
			w0 := db.WriteTxn(tbl)
			tbl.Insert(w0, &concw.Row{ID: "a", V: 1})
			it, _ := tbl.Changes(w0)
			w0.Commit()
			// drain: the iterator is exhausted and holds an open channel
			for k := 0; k < 5; k++ {
				seq, wch := it.Next(db.ReadTxn())
				for range seq {
				}
				select {
				case <-wch:
					continue
				default:
				}
				break
			}
			h := fmt.Sprintf("CW%d", idx)
			pa := ctl.PauseAt(h, p)
			done := make(chan struct{})
			go func() {
				defer close(done)
				w := db.NewHandle(h).WriteTxn(tbl)
				tbl.Insert(w, &concw.Row{ID: "b", V: 2})
				w.Commit()
			}()
			if !pa.WaitPaused(20 * time.Second) {
				r.Violation("stuck/"+p, idx, map[string]any{"message": "committer never reached " + p})
				pa.Resume()
				continue
			}
			r.Count("pause_points_reached", 1)
			seq, wch := it.Next(db.ReadTxn())
			got := false
			for ch := range seq {
				if ch.Object.ID == "b" {
					got = true
				}
			}
			pa.Resume()
			<-done
			if !got {
				select {
				case <-wch:
				case <-time.After(vkit.Patient(5 * time.Second)):
					r.Violation("missed-wakeup/"+p, idx, map[string]any{"message": fmt.Sprintf("Next (called while the committer was at %s) delivered nothing and the channel it returned is still open 5 s after the commit finished: a consumer waiting on it misses the change", p)})
					it.Close()
					continue
				}
				seq, _ = it.Next(db.ReadTxn())
				for ch := range seq {
					if ch.Object.ID == "b" {
						got = true
					}
				}
				if !got {
					r.Violation("change-lost/"+p, idx, map[string]any{"message": "the change committed during the window was never delivered"})
				}
			}
			it.Close()
			r.Seen("points", p)
			r.Case(vkit.NewHash().Str(p).Int(int64(round)).Sum(), true)
		}
	}
	r.Sample(map[string]any{"points": pts, "rounds": rounds})
	r.Finish()
}

// Overlapping iterators on one table are independent whatever the runtime did between their creations. One long-lived iterator is
// created right after a cycle of the Go collector; every round then inserts an object, lets the collector run, creates a second
// iterator through the very same code path (so that the runtime tends to hand out the same addresses again), closes it and deletes
// the object: the long-lived iterator must be handed that deletion. Whatever the library uses to tell trackers apart must not be
// something the runtime can hand out again while the first iterator is alive.
func TestVerif_IteratorIdentity(t *testing.T) {
	r := vkit.Start(t, "C07", "iterator-identity", "exploration", "a long-lived iterator A created after runtime.GC(); rounds of: insert an object, A drains, runtime.GC(), a short-lived iterator B on the same table created through the same code path and closed, the object deleted: A must deliver exactly that deletion; several tables in sequence; non-trivial = the round ran; distinct = (table, round)")
	r.Require("identity_rounds")
	tablesN := vkit.N(4, 100)
	rounds := 100
	db := statedb.New()
	for ti := 0; ti < tablesN && r.Violations() < 3; ti++ {
		tb := concw.NewTables(db, fmt.Sprintf("ii%d-", ti), 1)[0]
		newIter := func() statedb.ChangeIterator[*concw.Row] {
			w := db.WriteTxn(tb)
			it, err := tb.Changes(w)
			if err != nil {
				t.Fatal(err)
			}
			w.Commit()
			return it
		}
		drain := func(it statedb.ChangeIterator[*concw.Row]) (deleted []string) {
			for k := 0; k < 3; k++ {
				seq, _ := it.Next(db.ReadTxn())
				for ch := range seq {
					if ch.Deleted {
						deleted = append(deleted, ch.Object.ID)
					}
				}
			}
			return
		}
		runtime.GC()
		a := newIter()
		for round := 0; round < rounds && r.Violations() < 3; round++ {
			id := fmt.Sprint(round)
			w := db.WriteTxn(tb)
			tb.Insert(w, &concw.Row{ID: id, V: 1})
			w.Commit()
			drain(a)
			runtime.GC()
			b := newIter()
			b.Close()
			w = db.WriteTxn(tb)
			tb.Delete(w, &concw.Row{ID: id})
			w.Commit()
			if got := drain(a); len(got) != 1 || got[0] != id {
				r.Violation("changes/deletion-not-delivered", ti*rounds+round, map[string]any{"message": fmt.Sprintf("table %d round %d: after a second iterator on the table was created (a collector cycle after the first) and closed, the first one was handed the deletions %v for the deletion of object %s", ti, round, got, id)})
			}
			r.Count("identity_rounds", 1)
			r.Case(uint64(ti*rounds+round), true)
		}
		a.Close()
	}
	r.Finish()
}
