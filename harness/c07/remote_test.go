package c07

import (
	"context"
	"fmt"
	"net/http"
	"net/http/httptest"
	"net/url"
	"sync"
	"testing"
	"time"

	"github.com/cilium/statedb"
	"github.com/cilium/statedb/index"

	"verifharness/vkit"
)

// The change stream as a remote consumer gets it: the database's HTTP handler (/changes/<table>) registers a change iterator
// through the untyped table interface and streams what Next delivers; RemoteTable.Changes decodes the stream. The stream is a
// change iterator like any other: strictly increasing revisions, only committed versions, and replaying it converges to the table.

type robj struct {
	ID string
	N  uint64
}

func (o *robj) TableHeader() []string { return []string{"ID", "N"} }
func (o *robj) TableRow() []string    { return []string{o.ID, fmt.Sprint(o.N)} }

var rIDs = []string{"", "a", "ab", "b", "\x00", "c", "d", "e"}

func TestVerif_RemoteStream(t *testing.T) {
	r := vkit.Start(t, "C07", "remote-stream", "exploration", "a table served by DB.HTTPHandler on a loopback listener; 1-2 RemoteTable.Changes consumers (started before, during or after the first writes) replay the stream into a replica "+
		"while a writer commits and aborts random transactions (inserts, updates, deletes over 8 ids incl. the empty one, with pauses); oracle: revisions strictly increase per stream, every delivered version was committed with exactly that revision "+
		"(never one of an aborted transaction), deleted objects are reported with the version that was deleted, and once the writer has stopped every replica equals the table; non-trivial = at least one deletion was delivered; distinct = hash of the committed history")
	r.Require("changes_delivered", "streams_converged")
	r.ParallelCases(vkit.N(60, 1500), vkit.Workers(), func(ci int) {
		rng := r.Rand(ci)
		db := statedb.New()
		idIdx := statedb.Index[*robj, string]{Name: "id", FromObject: func(o *robj) index.KeySet { return index.NewKeySet(index.String(o.ID)) }, FromKey: index.String, FromString: index.FromString, Unique: true}
		tbl, err := statedb.NewTable(db, "remote", idIdx)
		if err != nil {
			r.Violation("changes/remote/newtable", ci, map[string]any{"message": err.Error()})
			return
		}
		srv := httptest.NewServer(db.HTTPHandler())
		tr := &http.Transport{}
		defer func() { tr.CloseIdleConnections(); srv.Close() }()
		u, _ := url.Parse(srv.URL)

		var mu sync.Mutex
		committed := map[uint64]uint64{} // payload N -> revision it was committed with
		aborted := map[uint64]bool{}
		invisible := map[uint64]bool{}
		var failed bool
		violate := func(key, f string, a ...any) {
			mu.Lock()
			first := !failed
			failed = true
			mu.Unlock()
			if first {
				r.Violation("changes/remote/"+key, ci, map[string]any{"message": fmt.Sprintf(f, a...)})
			}
		}

		type consumer struct {
			mu      sync.Mutex
			replica map[string]robj
			rev     map[string]uint64
			n, dels int
			cancel  context.CancelFunc
			done    chan struct{}
		}
		startConsumer := func() *consumer {
			c := &consumer{replica: map[string]robj{}, rev: map[string]uint64{}, done: make(chan struct{})}
			ctx, cancel := context.WithCancel(context.Background())
			c.cancel = cancel
			rt := statedb.NewRemoteTable[*robj](u, "remote")
			rt.SetTransport(tr)
			go func() {
				defer close(c.done)
				seq, errs := rt.Changes(ctx)
				var last uint64
				for ch, rev := range seq {
					if rev != ch.Revision || rev <= last {
						violate("order", "stream delivered revision %d (pair revision %d) after %d", ch.Revision, rev, last)
						return
					}
					last = rev
					mu.Lock()
					crev, isCommitted := committed[ch.Object.N]
					isAborted := aborted[ch.Object.N]
					if !ch.Deleted && invisible[ch.Object.N] {
						isCommitted = false
					}
					mu.Unlock()
					c.mu.Lock()
					c.n++
					if ch.Deleted {
						c.dels++
						delete(c.replica, ch.Object.ID)
						delete(c.rev, ch.Object.ID)
					} else {
						c.replica[ch.Object.ID] = *ch.Object
						c.rev[ch.Object.ID] = ch.Revision
					}
					c.mu.Unlock()
					if ch.Deleted {
						// the version reported with a deletion may be one that was written and deleted again inside one committed
						// transaction; it must still not come from a transaction that was aborted
						isCommitted = true
					}
					if isAborted || !isCommitted {
						violate("uncommitted", "stream delivered %+v (deleted=%v, revision %d): that version was never committed (written in an aborted transaction: %v)", *ch.Object, ch.Deleted, ch.Revision, isAborted)
						return
					}
					if !ch.Deleted && crev != ch.Revision {
						violate("revision", "stream delivered %+v with revision %d, it was committed with revision %d", *ch.Object, ch.Revision, crev)
						return
					}
				}
				if err := <-errs; err != nil && ctx.Err() == nil {
					violate("stream-error", "change stream ended with %v", err)
				}
			}()
			return c
		}

		var consumers []*consumer
		nCons := 1 + rng.IntN(2)
		startAt := map[int]bool{}
		for len(startAt) < nCons {
			startAt[rng.IntN(6)] = true
		}
		h := vkit.NewHash()
		var n uint64
		txns := 12 + rng.IntN(20)
		for ti := 0; ti < txns; ti++ {
			if startAt[ti] {
				consumers = append(consumers, startConsumer())
			}
			wtxn := db.WriteTxn(tbl)
			abort := rng.IntN(5) == 0
			var mine []uint64
			for oi, k := 0, 1+rng.IntN(4); oi < k; oi++ {
				id := rIDs[rng.IntN(len(rIDs))]
				if rng.IntN(3) == 0 {
					tbl.Delete(wtxn, &robj{ID: id})
					h.Str("d" + id)
				} else {
					n++
					tbl.Insert(wtxn, &robj{ID: id, N: n})
					mine = append(mine, n)
					h.Str("i" + id)
				}
			}
			if abort {
				mu.Lock()
				for _, v := range mine {
					aborted[v] = true
				}
				mu.Unlock()
				wtxn.Abort()
				h.Str("A")
			} else {
				// the revisions of the versions this transaction leaves behind; versions overwritten inside the transaction are never visible
				mu.Lock()
				for o, rev := range tbl.All(wtxn) {
					if _, ok := committed[o.N]; !ok {
						committed[o.N] = rev
					}
				}
				for _, v := range mine {
					if _, ok := committed[v]; !ok {
						invisible[v] = true // replaced or deleted again before the commit: never visible as a live version
					}
				}
				mu.Unlock()
				wtxn.Commit()
				h.Str("C")
			}
			if rng.IntN(3) == 0 {
				time.Sleep(time.Duration(rng.IntN(1500)) * time.Microsecond)
			}
		}
		for len(consumers) < nCons {
			consumers = append(consumers, startConsumer())
		}
		// the writer has stopped: every stream converges to the table
		want := map[string]robj{}
		wantRev := map[string]uint64{}
		for o, rev := range tbl.All(db.ReadTxn()) {
			want[o.ID] = *o
			wantRev[o.ID] = rev
		}
		deadline := time.Now().Add(vkit.Patient(20 * time.Second))
		dels := 0
		for _, c := range consumers {
			for {
				c.mu.Lock()
				same := len(c.replica) == len(want)
				for id, o := range want {
					same = same && c.replica[id] == o && c.rev[id] == wantRev[id]
				}
				got := fmt.Sprint(c.replica)
				c.mu.Unlock()
				mu.Lock()
				f := failed
				mu.Unlock()
				if same || f {
					break
				}
				if time.Now().After(deadline) {
					violate("not-converged", "the replica fed by RemoteTable.Changes is %s, the table holds %v (revisions %v) and the writer stopped long ago", got, want, wantRev)
					break
				}
				time.Sleep(200 * time.Microsecond)
			}
			c.cancel()
		}
		for _, c := range consumers {
			select {
			case <-c.done:
			case <-time.After(vkit.Patient(20 * time.Second)):
				violate("stream-stuck", "the change stream did not end after its context was cancelled")
			}
			c.mu.Lock()
			r.Count("changes_delivered", int64(c.n))
			dels += c.dels
			c.mu.Unlock()
		}
		mu.Lock()
		f := failed
		mu.Unlock()
		if !f {
			r.Count("streams_converged", int64(len(consumers)))
		}
		r.Case(h.Sum(), dels > 0)
		if r.WantSample() {
			r.Sample(map[string]any{"case": ci, "transactions": txns, "consumers": len(consumers), "final_objects": len(want), "deletions_delivered": dels})
		}
	})
	r.Finish()
}
