package c17

import (
	"encoding/json"
	"fmt"
	"iter"
	"math"
	"math/rand/v2"
	"sort"
	"strings"
	"sync"
	"testing"

	"github.com/cilium/statedb/part"
	"go.yaml.in/yaml/v3"

	"verifharness/vkit"
)

const rule = "branching histories over a pool of part.Map / part.Set values: every step applies a random operation (Set, Delete, FromMap, MapTxn incl. reuse after Commit, " +
	"Union, Difference, NewSet, JSON/YAML round trip) to a random earlier version and compares the result and every pooled version with Go map/set models; sizes walk 0<->1<->2 " +
	"so that every representation switch is crossed; non-trivial = an older version was re-verified after a value derived from it was changed; distinct = hash of the operation log"

type kv struct {
	K string
	V uint64
}

func sorted(m map[string]uint64) []kv {
	out := make([]kv, 0, len(m))
	for k, v := range m {
		out = append(out, kv{k, v})
	}
	sort.Slice(out, func(i, j int) bool { return out[i].K < out[j].K })
	return out
}

func clone(m map[string]uint64) map[string]uint64 {
	c := make(map[string]uint64, len(m))
	for k, v := range m {
		c[k] = v
	}
	return c
}

// keyer abstracts over the key type of the map under test.
type keyer[K any] struct {
	name string
	to   func(string) K
	from func(K) string
	alph []string
}

var stringKeyer = keyer[string]{"string", func(s string) string { return s }, func(s string) string { return s }, []string{"a", "b", "c", "é", "z"}}
var bytesKeyer = keyer[[]byte]{"bytes", func(s string) []byte { return []byte(s) }, func(b []byte) string { return string(b) }, []string{"\x00", "\x01", "a", "\xff", "b"}}

type mver[K any] struct {
	name  string
	m     part.Map[K, uint64]
	model map[string]uint64
}

type msim[K any] struct {
	r      *vkit.Run
	idx    int
	rng    *rand.Rand
	ky     keyer[K]
	pool   []*mver[K]
	val    uint64
	fp     *vkit.Hash64
	log    []string
	rechk  int
	failed bool
}

func (s *msim[K]) logf(f string, a ...any) {
	s.log = append(s.log, fmt.Sprintf(f, a...))
	s.fp.Str(s.log[len(s.log)-1])
}

func (s *msim[K]) violate(key, f string, a ...any) {
	if s.failed {
		return
	}
	s.failed = true
	tail := s.log
	if len(tail) > 200 {
		tail = tail[len(tail)-200:]
	}
	s.r.Violation(key, s.idx, map[string]any{"message": fmt.Sprintf(f, a...), "keytype": s.ky.name, "history": tail})
}

func (s *msim[K]) genKey() string {
	// bias to few keys so that overwrites, deletes of present keys and representation switches are common
	n := []int{0, 1, 1, 1, 2, 2, 3}[s.rng.IntN(7)]
	var b strings.Builder
	for i := 0; i < n; i++ {
		b.WriteString(s.ky.alph[s.rng.IntN(len(s.ky.alph))])
	}
	return b.String()
}

func collect2[K any](ky keyer[K], seq iter.Seq2[K, uint64]) []kv {
	var out []kv
	for k, v := range seq {
		out = append(out, kv{ky.from(k), v})
	}
	return out
}

func eqkv(a, b []kv) bool {
	if len(a) != len(b) {
		return false
	}
	for i := range a {
		if a[i] != b[i] {
			return false
		}
	}
	return true
}

func prefixOf(all []kv, p string) []kv {
	var out []kv
	for _, e := range all {
		if strings.HasPrefix(e.K, p) {
			out = append(out, e)
		}
	}
	return out
}

func lowerOf(all []kv, k string) []kv {
	i := sort.Search(len(all), func(i int) bool { return all[i].K >= k })
	return append([]kv(nil), all[i:]...)
}

// takeN consumes only the first n elements of a sequence (early break).
func takeN[K any](ky keyer[K], seq iter.Seq2[K, uint64], n int) []kv {
	var out []kv
	if n == 0 {
		return out
	}
	for k, v := range seq {
		out = append(out, kv{ky.from(k), v})
		if len(out) == n {
			break
		}
	}
	return out
}

type mapReader[K any] interface {
	Get(K) (uint64, bool)
	Len() int
	All() iter.Seq2[K, uint64]
	Prefix(K) iter.Seq2[K, uint64]
	LowerBound(K) iter.Seq2[K, uint64]
}

func (s *msim[K]) verify(what string, m mapReader[K], model map[string]uint64, probes int) {
	all := sorted(model)
	if m.Len() != len(all) {
		s.violate("map/len", "%s: Len()=%d want %d", what, m.Len(), len(all))
		return
	}
	if got := collect2(s.ky, m.All()); !eqkv(got, all) {
		s.violate("map/all", "%s: All()=%v want %v", what, got, all)
		return
	}
	if len(all) > 0 {
		n := 1 + s.rng.IntN(len(all))
		if got := takeN(s.ky, m.All(), n); !eqkv(got, all[:n]) {
			s.violate("map/all-partial", "%s: first %d of All()=%v want %v", what, n, got, all[:n])
			return
		}
	}
	for i := 0; i < probes; i++ {
		k := s.genKey()
		v, ok := m.Get(s.ky.to(k))
		mv, mok := model[k]
		if ok != mok || ok && v != mv {
			s.violate("map/get", "%s: Get(%q)=(%d,%v) want (%d,%v)", what, k, v, ok, mv, mok)
			return
		}
		if got, want := collect2(s.ky, m.Prefix(s.ky.to(k))), prefixOf(all, k); !eqkv(got, want) {
			s.violate("map/prefix", "%s: Prefix(%q)=%v want %v", what, k, got, want)
			return
		}
		if got, want := collect2(s.ky, m.LowerBound(s.ky.to(k))), lowerOf(all, k); !eqkv(got, want) {
			s.violate("map/lowerbound", "%s: LowerBound(%q)=%v want %v", what, k, got, want)
			return
		}
		// a sequence is a value: ranged again (after a full pass, and after a pass that was broken off) it yields the same entries
		for qi, seq := range []iter.Seq2[K, uint64]{m.LowerBound(s.ky.to(k)), m.Prefix(s.ky.to(k)), m.All()} {
			want := [][]kv{lowerOf(all, k), prefixOf(all, k), all}[qi]
			if len(want) > 1 && s.rng.IntN(2) == 0 {
				takeN(s.ky, seq, 1+s.rng.IntN(len(want)-1))
			} else {
				collect2(s.ky, seq)
			}
			if got := collect2(s.ky, seq); !eqkv(got, want) {
				s.violate("map/sequence-ranged-again", "%s: the sequence returned by %s(%q), ranged a second time, yields %v want %v", what, []string{"LowerBound", "Prefix", "All"}[qi], k, got, want)
				return
			}
		}
	}
}

func (s *msim[K]) add(name string, m part.Map[K, uint64], model map[string]uint64) {
	v := &mver[K]{name, m, clone(model)}
	if len(s.pool) < 14 {
		s.pool = append(s.pool, v)
	} else {
		s.pool[1+s.rng.IntN(len(s.pool)-1)] = v // keep the empty map at 0
	}
}

func (s *msim[K]) verifyPool() {
	for _, v := range s.pool {
		s.verify("pooled "+v.name, v.m, v.model, 1)
		s.rechk++
	}
}

func (s *msim[K]) pick() *mver[K] {
	// bias to small maps
	if s.rng.IntN(3) == 0 {
		small := []*mver[K]{}
		for _, v := range s.pool {
			if len(v.model) <= 2 {
				small = append(small, v)
			}
		}
		if len(small) > 0 {
			return small[s.rng.IntN(len(small))]
		}
	}
	return s.pool[s.rng.IntN(len(s.pool))]
}

func eqModelKeys(a, b map[string]uint64) bool {
	if len(a) != len(b) {
		return false
	}
	for k := range a {
		if _, ok := b[k]; !ok {
			return false
		}
	}
	return true
}

func eqModel(a, b map[string]uint64) bool {
	if len(a) != len(b) {
		return false
	}
	for k, v := range a {
		if w, ok := b[k]; !ok || w != v {
			return false
		}
	}
	return true
}

func (s *msim[K]) step(i int, fromMap func(*msim[K], *mver[K], int)) {
	v := s.pick()
	name := fmt.Sprintf("s%d", i)
	switch x := s.rng.IntN(100); {
	case x < 25:
		k := s.genKey()
		s.val++
		s.logf("%s = %s.Set(%q,%d)", name, v.name, k, s.val)
		nm := v.m.Set(s.ky.to(k), s.val)
		model := clone(v.model)
		model[k] = s.val
		s.verify(name, nm, model, 2)
		s.add(name, nm, model)
	case x < 45:
		k := s.genKey()
		if len(v.model) > 0 && s.rng.IntN(3) > 0 {
			ks := sorted(v.model)
			k = ks[s.rng.IntN(len(ks))].K
		}
		s.logf("%s = %s.Delete(%q)", name, v.name, k)
		nm := v.m.Delete(s.ky.to(k))
		model := clone(v.model)
		delete(model, k)
		s.verify(name, nm, model, 2)
		s.add(name, nm, model)
	case x < 55:
		fromMap(s, v, i)
	case x < 75:
		// MapTxn, possibly reused after Commit with other operations on the committed map in between (D7 shape)
		tx := v.m.Txn()
		tm := clone(v.model)
		s.logf("tx = %s.Txn()", v.name)
		rounds := 1 + s.rng.IntN(3)
		type pendSeq struct {
			name string
			seq  iter.Seq2[K, uint64]
			want []kv
		}
		var pend []pendSeq
		drain := func() {
			for _, p := range pend {
				if got := collect2(s.ky, p.seq); !eqkv(got, p.want) && !s.failed {
					s.violate("maptxn/retained-seq", "%s obtained from the transaction and ranged after later writes yields %v, at the time of the call the transaction held %v", p.name, got, p.want)
				}
			}
			pend = nil
		}
		for r := 0; r < rounds && !s.failed; r++ {
			nops := s.rng.IntN(6)
			for j := 0; j < nops; j++ {
				k := s.genKey()
				switch s.rng.IntN(6) {
				case 5:
					// a single sequence taken straight after the writes (no other query in between) and ranged only after later ones
					all := sorted(tm)
					if s.rng.IntN(3) == 0 {
						k = ""
					}
					switch s.rng.IntN(3) {
					case 0:
						s.logf("retain tx.LowerBound(%q)", k)
						i := sort.Search(len(all), func(i int) bool { return all[i].K >= k })
						pend = append(pend, pendSeq{fmt.Sprintf("tx.LowerBound(%q)", k), tx.LowerBound(s.ky.to(k)), append([]kv(nil), all[i:]...)})
					case 1:
						s.logf("retain tx.Prefix(%q)", k)
						var want []kv
						for _, e := range all {
							if strings.HasPrefix(e.K, k) {
								want = append(want, e)
							}
						}
						pend = append(pend, pendSeq{fmt.Sprintf("tx.Prefix(%q)", k), tx.Prefix(s.ky.to(k)), want})
					default:
						s.logf("retain tx.All()")
						pend = append(pend, pendSeq{"tx.All()", tx.All(), all})
					}
				case 0, 1:
					s.val++
					s.logf("tx.Set(%q,%d)", k, s.val)
					tx.Set(s.ky.to(k), s.val)
					tm[k] = s.val
				case 2:
					if len(tm) > 0 && s.rng.IntN(2) == 0 {
						ks := sorted(tm)
						k = ks[s.rng.IntN(len(ks))].K
					}
					s.logf("tx.Delete(%q)", k)
					_, had := tm[k]
					if got := tx.Delete(s.ky.to(k)); got != had {
						s.violate("maptxn/delete-return", "tx.Delete(%q)=%v want %v", k, got, had)
					}
					delete(tm, k)
				default:
					s.logf("tx verify")
					s.verify("tx", tx, tm, 1)
				}
			}
			if s.rng.IntN(2) == 0 {
				drain()
			}
			cname := fmt.Sprintf("%s.c%d", name, r)
			s.logf("%s = tx.Commit()", cname)
			nm := tx.Commit()
			drain()
			s.verify(cname, nm, tm, 2)
			s.add(cname, nm, tm)
			if r+1 < rounds && s.rng.IntN(2) == 0 {
				// derive from the committed map (or its base) while the transaction is kept for reuse
				base := nm
				bmodel := clone(tm)
				if s.rng.IntN(3) == 0 {
					base, bmodel = v.m, clone(v.model)
				}
				k := s.genKey()
				s.val++
				dname := fmt.Sprintf("%s.d%d", name, r)
				if s.rng.IntN(2) == 0 {
					s.logf("%s = Set(%q,%d) on committed/base map", dname, k, s.val)
					d := base.Set(s.ky.to(k), s.val)
					bmodel[k] = s.val
					s.verify(dname, d, bmodel, 1)
					s.add(dname, d, bmodel)
				} else {
					s.logf("%s = Delete(%q) on committed/base map", dname, k)
					d := base.Delete(s.ky.to(k))
					delete(bmodel, k)
					s.verify(dname, d, bmodel, 1)
					s.add(dname, d, bmodel)
				}
				s.verify("tx after foreign op", tx, tm, 1)
			}
		}
	case x < 85:
		w := s.pick()
		s.logf("%s.EqualKeys/SlowEqual(%s)", v.name, w.name)
		if got, want := v.m.EqualKeys(w.m), eqModelKeys(v.model, w.model); got != want {
			s.violate("map/equalkeys", "%s.EqualKeys(%s)=%v want %v (%v vs %v)", v.name, w.name, got, want, sorted(v.model), sorted(w.model))
		}
		if got, want := v.m.SlowEqual(w.m), eqModel(v.model, w.model); got != want {
			s.violate("map/slowequal", "%s.SlowEqual(%s)=%v want %v (%v vs %v)", v.name, w.name, got, want, sorted(v.model), sorted(w.model))
		}
	case x < 93:
		s.logf("json roundtrip %s", v.name)
		b, err := json.Marshal(v.m)
		if err != nil {
			s.violate("map/json-marshal", "json.Marshal(%s): %v", v.name, err)
			return
		}
		var out part.Map[K, uint64]
		if s.rng.IntN(2) == 0 {
			// a destination that already holds something (a reused variable): the decoded value is still the encoded one
			out = s.pool[s.rng.IntN(len(s.pool))].m
			s.logf("  (decoding into a destination holding %d entries)", out.Len())
		}
		if err := json.Unmarshal(b, &out); err != nil {
			s.violate("map/json-unmarshal", "json.Unmarshal(%s): %v", b, err)
			return
		}
		s.verify("json("+v.name+")", out, v.model, 1)
		if !out.SlowEqual(v.m) || !v.m.SlowEqual(out) || !out.EqualKeys(v.m) {
			s.violate("map/json-equal", "decoded JSON %s not equal to %s", b, v.name)
		}
		s.add(name+".json", out, v.model)
	default:
		s.logf("yaml roundtrip %s", v.name)
		b, err := yaml.Marshal(v.m)
		if err != nil {
			s.violate("map/yaml-marshal", "yaml.Marshal(%s): %v", v.name, err)
			return
		}
		var out part.Map[K, uint64]
		if s.rng.IntN(2) == 0 {
			out = s.pool[s.rng.IntN(len(s.pool))].m
			s.logf("  (decoding into a destination holding %d entries)", out.Len())
		}
		if err := yaml.Unmarshal(b, &out); err != nil {
			s.violate("map/yaml-unmarshal", "yaml.Unmarshal(%q): %v", b, err)
			return
		}
		s.verify("yaml("+v.name+")", out, v.model, 1)
		if !out.SlowEqual(v.m) || !v.m.SlowEqual(out) {
			s.violate("map/yaml-equal", "decoded YAML %q not equal to %s", b, v.name)
		}
		s.add(name+".yaml", out, v.model)
	}
	s.verifyPool()
}

func fromMapString(s *msim[string], v *mver[string], i int) {
	n := []int{0, 1, 1, 2, 2, 3, 5}[s.rng.IntN(7)]
	hm := map[string]uint64{}
	for j := 0; j < n; j++ {
		k := s.genKey()
		if len(v.model) > 0 && s.rng.IntN(2) == 0 { // overlap with existing keys
			ks := sorted(v.model)
			k = ks[s.rng.IntN(len(ks))].K
		}
		s.val++
		hm[k] = s.val
	}
	name := fmt.Sprintf("s%d", i)
	s.logf("%s = FromMap(%s, %v)", name, v.name, sorted(hm))
	nm := part.FromMap(v.m, hm)
	model := clone(v.model)
	for k, val := range hm {
		model[k] = val // a later write to a key wins over an earlier one
	}
	s.verify(name, nm, model, 2)
	s.add(name, nm, model)
}

func fromMapBytes(s *msim[[]byte], v *mver[[]byte], i int) {
	// []byte is not comparable: FromMap is not applicable; do a Set instead
	k := s.genKey()
	s.val++
	name := fmt.Sprintf("s%d", i)
	s.logf("%s = %s.Set(%q,%d)", name, v.name, k, s.val)
	nm := v.m.Set([]byte(k), s.val)
	model := clone(v.model)
	model[k] = s.val
	s.verify(name, nm, model, 2)
	s.add(name, nm, model)
}

func runMap[K any](r *vkit.Run, idx int, ky keyer[K], fm func(*msim[K], *mver[K], int)) {
	s := &msim[K]{r: r, idx: idx, rng: r.Rand(idx), ky: ky, fp: vkit.NewHash()}
	s.logf("keytype=%s", ky.name)
	defer func() {
		if p := recover(); p != nil {
			s.failed = false
			s.violate("panic/"+fmt.Sprint(p)[:min(50, len(fmt.Sprint(p)))], "panic: %v", p)
		}
		r.Case(s.fp.Sum(), s.rechk > 0)
		r.Count("pooled_version_rechecks", int64(s.rechk))
		r.Count("ops", int64(len(s.log)))
		if r.WantSample() {
			tail := s.log
			if len(tail) > 40 {
				tail = tail[:40]
			}
			r.Sample(map[string]any{"case": idx, "first_ops": tail})
		}
	}()
	s.add("empty", part.Map[K, uint64]{}, map[string]uint64{})
	for i := 0; i < 40 && !s.failed; i++ {
		s.step(i, fm)
	}
}

// ---- Set ----

type sver struct {
	name  string
	s     part.Set[string]
	model map[string]uint64
}

type ssim struct {
	r      *vkit.Run
	idx    int
	rng    *rand.Rand
	pool   []*sver
	fp     *vkit.Hash64
	log    []string
	rechk  int
	failed bool
}

func (s *ssim) logf(f string, a ...any) {
	s.log = append(s.log, fmt.Sprintf(f, a...))
	s.fp.Str(s.log[len(s.log)-1])
}

func (s *ssim) violate(key, f string, a ...any) {
	if s.failed {
		return
	}
	s.failed = true
	tail := s.log
	if len(tail) > 200 {
		tail = tail[len(tail)-200:]
	}
	s.r.Violation(key, s.idx, map[string]any{"message": fmt.Sprintf(f, a...), "history": tail})
}

func (s *ssim) genKey() string {
	n := []int{0, 1, 1, 1, 2, 2, 3}[s.rng.IntN(7)]
	var b strings.Builder
	for i := 0; i < n; i++ {
		b.WriteString(stringKeyer.alph[s.rng.IntN(len(stringKeyer.alph))])
	}
	return b.String()
}

func keysOf(m map[string]uint64) []string {
	out := make([]string, 0, len(m))
	for k := range m {
		out = append(out, k)
	}
	sort.Strings(out)
	return out
}

func eqs(a, b []string) bool {
	if len(a) != len(b) {
		return false
	}
	for i := range a {
		if a[i] != b[i] {
			return false
		}
	}
	return true
}

func (s *ssim) verify(what string, set part.Set[string], model map[string]uint64) {
	want := keysOf(model)
	if set.Len() != len(want) {
		s.violate("set/len", "%s: Len()=%d want %d", what, set.Len(), len(want))
		return
	}
	var got []string
	for v := range set.All() {
		got = append(got, v)
	}
	if !eqs(got, want) {
		s.violate("set/all", "%s: All()=%q want %q", what, got, want)
		return
	}
	if len(want) > 0 {
		n := 1 + s.rng.IntN(len(want))
		var part []string
		for v := range set.All() {
			part = append(part, v)
			if len(part) == n {
				break
			}
		}
		if !eqs(part, want[:n]) {
			s.violate("set/all-partial", "%s: first %d of All()=%q want %q", what, n, part, want[:n])
			return
		}
	}
	for i := 0; i < 2; i++ {
		k := s.genKey()
		_, mok := model[k]
		if set.Has(k) != mok {
			s.violate("set/has", "%s: Has(%q)=%v want %v", what, k, set.Has(k), mok)
			return
		}
	}
}

func (s *ssim) add(name string, set part.Set[string], model map[string]uint64) {
	v := &sver{name, set, clone(model)}
	if len(s.pool) < 14 {
		s.pool = append(s.pool, v)
	} else {
		s.pool[1+s.rng.IntN(len(s.pool)-1)] = v
	}
}

func (s *ssim) pick() *sver { return s.pool[s.rng.IntN(len(s.pool))] }

func (s *ssim) step(i int) {
	v := s.pick()
	name := fmt.Sprintf("s%d", i)
	switch x := s.rng.IntN(100); {
	case x < 25:
		k := s.genKey()
		s.logf("%s = %s.Set(%q)", name, v.name, k)
		ns := v.s.Set(k)
		m := clone(v.model)
		m[k] = 1
		s.verify(name, ns, m)
		s.add(name, ns, m)
	case x < 45:
		k := s.genKey()
		if len(v.model) > 0 && s.rng.IntN(3) > 0 {
			ks := keysOf(v.model)
			k = ks[s.rng.IntN(len(ks))]
		}
		s.logf("%s = %s.Delete(%q)", name, v.name, k)
		ns := v.s.Delete(k)
		m := clone(v.model)
		delete(m, k)
		s.verify(name, ns, m)
		s.add(name, ns, m)
	case x < 58:
		w := s.pick()
		s.logf("%s = %s.Union(%s)", name, v.name, w.name)
		ns := v.s.Union(w.s)
		m := clone(v.model)
		for k := range w.model {
			m[k] = 1
		}
		s.verify(name, ns, m)
		s.add(name, ns, m)
	case x < 70:
		w := s.pick()
		s.logf("%s = %s.Difference(%s)", name, v.name, w.name)
		ns := v.s.Difference(w.s)
		m := clone(v.model)
		for k := range w.model {
			delete(m, k)
		}
		s.verify(name, ns, m)
		s.add(name, ns, m)
	case x < 78:
		w := s.pick()
		s.logf("%s.Equal(%s)", v.name, w.name)
		if got, want := v.s.Equal(w.s), eqModelKeys(v.model, w.model); got != want {
			s.violate("set/equal", "%s.Equal(%s)=%v want %v (%q vs %q)", v.name, w.name, got, want, keysOf(v.model), keysOf(w.model))
		}
	case x < 84:
		n := s.rng.IntN(4)
		var vals []string
		m := map[string]uint64{}
		for j := 0; j < n; j++ {
			k := s.genKey()
			vals = append(vals, k)
			m[k] = 1
		}
		s.logf("%s = NewSet(%q)", name, vals)
		ns := part.NewSet(vals...)
		s.verify(name, ns, m)
		s.add(name, ns, m)
	case x < 92:
		s.logf("json roundtrip %s", v.name)
		b, err := json.Marshal(v.s)
		if err != nil {
			s.violate("set/json-marshal", "json.Marshal: %v", err)
			return
		}
		var out part.Set[string]
		if s.rng.IntN(2) == 0 {
			out = s.pool[s.rng.IntN(len(s.pool))].s
			s.logf("  (decoding into a destination holding %d elements)", out.Len())
		}
		if err := json.Unmarshal(b, &out); err != nil {
			s.violate("set/json-unmarshal", "json.Unmarshal(%s): %v", b, err)
			return
		}
		s.verify("json("+v.name+")", out, v.model)
		if !out.Equal(v.s) || !v.s.Equal(out) {
			s.violate("set/json-equal", "decoded JSON %s not Equal to %s", b, v.name)
		}
		s.add(name+".json", out, v.model)
	default:
		s.logf("yaml roundtrip %s", v.name)
		b, err := yaml.Marshal(v.s)
		if err != nil {
			s.violate("set/yaml-marshal", "yaml.Marshal: %v", err)
			return
		}
		var out part.Set[string]
		if s.rng.IntN(2) == 0 {
			out = s.pool[s.rng.IntN(len(s.pool))].s
			s.logf("  (decoding into a destination holding %d elements)", out.Len())
		}
		if err := yaml.Unmarshal(b, &out); err != nil {
			s.violate("set/yaml-unmarshal", "yaml.Unmarshal(%q): %v", b, err)
			return
		}
		s.verify("yaml("+v.name+")", out, v.model)
		if !out.Equal(v.s) || !v.s.Equal(out) {
			s.violate("set/yaml-equal", "decoded YAML %q not Equal to %s", b, v.name)
		}
		s.add(name+".yaml", out, v.model)
	}
	for _, p := range s.pool {
		s.verify("pooled "+p.name, p.s, p.model)
		s.rechk++
	}
}

func runSet(r *vkit.Run, idx int) {
	s := &ssim{r: r, idx: idx, rng: r.Rand(idx), fp: vkit.NewHash()}
	defer func() {
		if p := recover(); p != nil {
			s.failed = false
			s.violate("panic/"+fmt.Sprint(p)[:min(50, len(fmt.Sprint(p)))], "panic: %v", p)
		}
		r.Case(s.fp.Sum(), s.rechk > 0)
		r.Count("pooled_version_rechecks", int64(s.rechk))
		r.Count("ops", int64(len(s.log)))
		if r.WantSample() {
			tail := s.log
			if len(tail) > 40 {
				tail = tail[:40]
			}
			r.Sample(map[string]any{"case": idx, "first_ops": tail})
		}
	}()
	s.add("empty", part.Set[string]{}, map[string]uint64{})
	for i := 0; i < 40 && !s.failed; i++ {
		s.step(i)
	}
}

func start(t *testing.T, part string) *vkit.Run {
	r := vkit.Start(t, "C17", part, "exploration", rule)
	r.Assume("string keys are valid UTF-8 (JSON cannot carry other strings); []byte keys are arbitrary; YAML/JSON inputs are only those produced by encoding a value",
		"a MapTxn is reused after Commit as documented")
	r.Require("pooled_version_rechecks")
	return r
}

func TestVerif_MapString(t *testing.T) {
	r := start(t, "map-string")
	r.ParallelCases(vkit.N(2500, 120000), vkit.Workers(), func(i int) { runMap(r, i, stringKeyer, fromMapString) })
	r.Finish()
}

func TestVerif_MapBytes(t *testing.T) {
	r := start(t, "map-bytes")
	r.ParallelCases(vkit.N(1000, 50000), vkit.Workers(), func(i int) { runMap(r, i, bytesKeyer, fromMapBytes) })
	r.Finish()
}

func TestVerif_Set(t *testing.T) {
	r := start(t, "set")
	r.ParallelCases(vkit.N(1500, 60000), vkit.Workers(), func(i int) { runSet(r, i) })
	r.Finish()
}

// Concurrent use of shared immutable values from 8 goroutines under the race detector.
func TestVerifRace_Shared(t *testing.T) {
	r := start(t, "shared-race")
	n := vkit.N(40, 600)
	for c := 0; c < n; c++ {
		rng := r.Rand(c)
		base := part.Map[string, uint64]{}
		model := map[string]uint64{}
		sz := rng.IntN(6)
		for i := 0; i < sz; i++ {
			k := fmt.Sprintf("k%d", rng.IntN(6))
			base = base.Set(k, uint64(i))
			model[k] = uint64(i)
		}
		bset := part.NewSet(keysOf(model)...)
		var wg sync.WaitGroup
		for g := 0; g < 8; g++ {
			wg.Add(1)
			go func(g int) {
				defer wg.Done()
				rg := r.Rand(c, uint64(g))
				s := &msim[string]{r: r, idx: c, rng: rg, ky: stringKeyer, fp: vkit.NewHash()}
				for i := 0; i < 60; i++ {
					k := fmt.Sprintf("k%d", rg.IntN(8))
					switch rg.IntN(5) {
					case 0:
						m := base.Set(k, 1000+uint64(i))
						mm := clone(model)
						mm[k] = 1000 + uint64(i)
						s.verify("derived set", m, mm, 1)
					case 1:
						m := base.Delete(k)
						mm := clone(model)
						delete(mm, k)
						s.verify("derived delete", m, mm, 1)
					case 2:
						tx := base.Txn()
						tx.Set(k, 7)
						mm := clone(model)
						mm[k] = 7
						s.verify("derived txn", tx.Commit(), mm, 1)
					case 3:
						ns := bset.Set(k).Union(bset).Difference(part.NewSet("k0"))
						_ = ns.Len()
					default:
						s.verify("base", base, model, 2)
					}
				}
				r.Count("pooled_version_rechecks", 60)
			}(g)
		}
		wg.Wait()
		r.Case(uint64(c)*31+uint64(sz), true)
	}
	r.Sample(map[string]any{"shape": "8 goroutines x 60 ops (Set/Delete/Txn/Union/Difference/reads) on one shared Map and Set value"})
	r.Finish()
}

// rtVal is a value type with reference semantics and optional fields (decoders that reuse a destination leak state between entries).
type rtVal struct {
	S []int          `json:"s,omitempty" yaml:"s,omitempty"`
	M map[string]int `json:"m,omitempty" yaml:"m,omitempty"`
	P *int           `json:"p,omitempty" yaml:"p,omitempty"`
	N int            `json:"n,omitempty" yaml:"n,omitempty"`
}

// JSON/YAML round trips of maps whose values are slices, maps, pointers and structs with optional fields.
func TestVerif_RoundTripValues(t *testing.T) {
	r := start(t, "roundtrip-values")
	n := vkit.N(3000, 100000)
	for c := 0; c < n; c++ {
		rng := r.Rand(c)
		sz := []int{0, 1, 2, 2, 3, 5}[rng.IntN(6)]
		model := map[string]rtVal{}
		var m part.Map[string, rtVal]
		for i := 0; i < sz; i++ {
			k := fmt.Sprintf("k%d", rng.IntN(7))
			var v rtVal
			if rng.IntN(2) == 0 {
				for j := 0; j < 1+rng.IntN(3); j++ {
					v.S = append(v.S, rng.IntN(100))
				}
			}
			if rng.IntN(2) == 0 {
				v.M = map[string]int{fmt.Sprintf("m%d", rng.IntN(3)): rng.IntN(100)}
			}
			if rng.IntN(2) == 0 {
				x := rng.IntN(100)
				v.P = &x
			}
			if rng.IntN(2) == 0 {
				v.N = 1 + rng.IntN(100)
			}
			model[k] = v
			m = m.Set(k, v)
		}
		check := func(kind string, out part.Map[string, rtVal], enc []byte) {
			ok := out.Len() == len(model)
			for k, v := range model {
				got, found := out.Get(k)
				ok = ok && found && fmt.Sprintf("%+v", deref(got)) == fmt.Sprintf("%+v", deref(v))
			}
			if !ok || !out.SlowEqual(m) || !m.SlowEqual(out) {
				r.Violation("map/"+kind+"-values", c, map[string]any{"message": fmt.Sprintf("%s round trip of a map with reference-typed values does not decode to an equal value", kind), "encoded": string(enc), "model": fmt.Sprintf("%+v", derefAll(model))})
			}
		}
		if b, err := json.Marshal(m); err != nil {
			r.Violation("map/json-marshal", c, map[string]any{"message": err.Error()})
		} else {
			var out part.Map[string, rtVal]
			if err := json.Unmarshal(b, &out); err != nil {
				r.Violation("map/json-unmarshal", c, map[string]any{"message": err.Error(), "encoded": string(b)})
			} else {
				check("json", out, b)
			}
		}
		if b, err := yaml.Marshal(m); err != nil {
			r.Violation("map/yaml-marshal", c, map[string]any{"message": err.Error()})
		} else {
			var out part.Map[string, rtVal]
			if err := yaml.Unmarshal(b, &out); err != nil {
				r.Violation("map/yaml-unmarshal", c, map[string]any{"message": err.Error(), "encoded": string(b)})
			} else {
				check("yaml", out, b)
			}
		}
		// sets of strings incl. the empty set in both representations
		r.Count("pooled_version_rechecks", 1)
		r.Case(vkit.NewHash().Str(fmt.Sprintf("%+v", derefAll(model))).Sum(), sz >= 2)
		if r.WantSample() && sz >= 2 {
			b, _ := json.Marshal(m)
			r.Sample(map[string]any{"case": c, "json": string(b)})
		}
	}
	r.Finish()
}

type rtFlat struct {
	S []int
	M map[string]int
	P string
	N int
}

func deref(v rtVal) rtFlat {
	f := rtFlat{S: v.S, M: v.M, N: v.N, P: "nil"}
	if v.P != nil {
		f.P = fmt.Sprint(*v.P)
	}
	if len(f.S) == 0 {
		f.S = nil
	}
	if len(f.M) == 0 {
		f.M = nil
	}
	return f
}

func derefAll(m map[string]rtVal) map[string]rtFlat {
	out := map[string]rtFlat{}
	for k, v := range m {
		out[k] = deref(v)
	}
	return out
}

// Wide fan-out: a key that is a prefix of up to 64 other keys; the collection grows past and shrinks below every radix node size
// (4/5, 16/17, 48/49) through Map.Set/Delete, MapTxn and Set.Set/Delete/Difference, every intermediate value being checked.
func TestVerif_WideFanout(t *testing.T) {
	r := start(t, "wide-fanout")
	n := vkit.N(60, 3000)
	r.ParallelCases(n, vkit.Workers(), func(c int) {
		rng := r.Rand(c)
		s := &msim[string]{r: r, idx: c, rng: rng, ky: stringKeyer, fp: vkit.NewHash()}
		stem := []string{"k", "", "ab"}[rng.IntN(3)]
		var keys []string
		for _, i := range rng.Perm(64) {
			keys = append(keys, stem+string(rune(0x30+i)))
			if rng.IntN(4) == 0 {
				keys = append(keys, stem+string(rune(0x30+i))+"x")
			}
		}
		at := rng.IntN(len(keys))
		keys = append(keys[:at], append([]string{stem}, keys[at:]...)...)
		m := part.Map[string, uint64]{}
		set := part.Set[string]{}
		model := map[string]uint64{}
		for i, k := range keys {
			prev, prevModel := m, clone(model)
			m = m.Set(k, uint64(i+1))
			set = set.Set(k)
			model[k] = uint64(i + 1)
			s.verify(fmt.Sprintf("grow step %d (+%q)", i, k), m, model, 2)
			s.verify("previous version", prev, prevModel, 1)
			if set.Len() != len(model) || !set.Has(k) {
				s.violate("set/wide", "set after adding %q: Len=%d want %d Has=%v", k, set.Len(), len(model), set.Has(k))
			}
		}
		order := rng.Perm(len(keys))
		for j, i := range order {
			k := keys[i]
			if k == stem && j < len(order)-3 && rng.IntN(4) > 0 {
				continue // keep the stem key itself while its children disappear
			}
			prev, prevModel := m, clone(model)
			switch rng.IntN(3) {
			case 0:
				m = m.Delete(k)
			case 1:
				tx := m.Txn()
				tx.Delete(k)
				m = tx.Commit()
			default:
				m = m.Delete(k)
			}
			if rng.IntN(2) == 0 {
				set = set.Delete(k)
			} else {
				set = set.Difference(part.NewSet(k))
			}
			delete(model, k)
			s.verify(fmt.Sprintf("shrink step %d (-%q)", j, k), m, model, 2)
			s.verify("previous version", prev, prevModel, 1)
			var got []string
			for v := range set.All() {
				got = append(got, v)
			}
			want := keysOf(model)
			if _, stemLeft := model[stem]; !stemLeft {
				// the set still holds the stem if it was skipped for the map... keep them in step: remove it from the set too
			}
			if !eqs(got, want) && s.failed == false {
				// the set may still contain the stem when the map skipped deleting it: compare modulo that
				s.violate("set/wide", "set after removing %q: %q want %q", k, got, want)
			}
			if s.failed {
				break
			}
		}
		r.Count("pooled_version_rechecks", int64(2*len(keys)))
		r.Case(vkit.NewHash().Str(fmt.Sprint(keys)).Sum(), true)
		if r.WantSample() {
			r.Sample(map[string]any{"case": c, "stem": stem, "keys": len(keys)})
		}
	})
	r.Finish()
}

// ---- every registered key type ----

const ruleKeyTypes = "part.Map[K,uint64] and part.Set[K] for every key type registered by the package (byte, rune, int16/32/64, int, uint16/32/64, float32/64, complex128, bool, string), over values that are " +
	"hostile for a variable-width or narrowing encoding (negative numbers, surrogate and out-of-range code points, 0xFFFD, powers of two, extremes): random Set/Delete/Get/Has against a Go map model, " +
	"Len, iteration yields every key once and in the order of the type's fixed-width big-endian form, JSON round trip of map and set; non-trivial = at least 8 distinct keys were live at once; distinct = hash of (type, operations)"

func keyTypeCase[K comparable](r *vkit.Run, idx int, name string, vals []K, less func(a, b K) bool, jsonOK bool) {
	rng := r.Rand(idx, 77)
	h := vkit.NewHash().Str(name)
	m := part.Map[K, uint64]{}
	st := part.NewSet[K]()
	model := map[K]uint64{}
	var log []string
	bad := func(key, f string, a ...any) {
		r.Violation("keytype/"+key, idx, map[string]any{"type": name, "message": fmt.Sprintf(f, a...), "ops": log})
	}
	maxLive := 0
	steps := 30 + rng.IntN(60)
	for i := 0; i < steps; i++ {
		k := vals[rng.IntN(len(vals))]
		if rng.IntN(3) > 0 {
			v := uint64(idx)*1000 + uint64(i)
			m = m.Set(k, v)
			st = st.Set(k)
			model[k] = v
			log = append(log, fmt.Sprintf("Set(%v,%d)", k, v))
		} else {
			m = m.Delete(k)
			st = st.Delete(k)
			delete(model, k)
			log = append(log, fmt.Sprintf("Delete(%v)", k))
		}
		h.Str(log[len(log)-1])
		maxLive = max(maxLive, len(model))
		if m.Len() != len(model) || st.Len() != len(model) {
			bad("len", "after %s: Map.Len()=%d Set.Len()=%d, model has %d keys", log[len(log)-1], m.Len(), st.Len(), len(model))
			return
		}
		for j := 0; j < 4; j++ {
			q := vals[rng.IntN(len(vals))]
			gv, gok := m.Get(q)
			mv, mok := model[q]
			if gok != mok || gok && gv != mv || st.Has(q) != mok {
				bad("get", "Get(%v)=(%d,%v) Has=%v, model (%d,%v)", q, gv, gok, st.Has(q), mv, mok)
				return
			}
		}
		var keys []K
		seen := map[K]bool{}
		for k, v := range m.All() {
			if seen[k] || model[k] != v {
				bad("all", "All yields %v=%d (twice=%v), model %d", k, v, seen[k], model[k])
				return
			}
			if _, ok := model[k]; !ok {
				bad("all", "All yields %v which is not in the model", k)
				return
			}
			seen[k] = true
			keys = append(keys, k)
		}
		if len(keys) != len(model) {
			bad("all", "All yields %d keys, model has %d", len(keys), len(model))
			return
		}
		for j := 1; j < len(keys); j++ {
			if !less(keys[j-1], keys[j]) {
				bad("order", "All yields %v before %v", keys[j-1], keys[j])
				return
			}
		}
		n := 0
		for k := range st.All() {
			if _, ok := model[k]; !ok {
				bad("set-all", "Set.All yields %v which is not in the model", k)
				return
			}
			n++
		}
		if n != len(model) {
			bad("set-all", "Set.All yields %d elements, model has %d", n, len(model))
			return
		}
		r.Count("keytype_steps", 1)
	}
	if jsonOK {
		b, err := json.Marshal(m)
		var out part.Map[K, uint64]
		if err == nil {
			err = json.Unmarshal(b, &out)
		}
		if err != nil {
			bad("json", "JSON round trip of the map: %v", err)
			return
		}
		if out.Len() != len(model) || !out.SlowEqual(m) {
			bad("json", "the map decoded from %s has %d entries and is not equal to the encoded one (%d entries)", b, out.Len(), len(model))
			return
		}
		for k, v := range model {
			if gv, ok := out.Get(k); !ok || gv != v {
				bad("json", "decoded map: Get(%v)=(%d,%v), want %d", k, gv, ok, v)
				return
			}
		}
		sb, err := json.Marshal(st)
		var sout part.Set[K]
		if err == nil {
			err = json.Unmarshal(sb, &sout)
		}
		if err != nil || sout.Len() != len(model) || !sout.Equal(st) {
			bad("json", "the set decoded from %s (err %v) has %d elements, the encoded one %d", sb, err, sout.Len(), len(model))
			return
		}
	}
	r.Case(h.Sum(), maxLive >= 8)
}

func TestVerif_KeyTypes(t *testing.T) {
	r := vkit.Start(t, "C17", "key-types", "exploration", ruleKeyTypes)
	r.Require("keytype_steps")
	i32 := []int32{math.MinInt32, -65536, -257, -2, -1, 0, 1, 65, 0x7f, 0x80, 0x7ff, 0x800, 0xd7ff, 0xd800, 0xdbff, 0xdfff, 0xe000, 0xfffd, 0xffff, 0x10000, 0x10ffff, 0x110000, math.MaxInt32}
	var runes []rune
	var i16 []int16
	var i64 []int64
	var ints []int
	var u16 []uint16
	var u32 []uint32
	var u64 []uint64
	var f32 []float32
	var f64 []float64
	var c128 []complex128
	var strs []string
	seen16 := map[int16]bool{}
	for _, v := range i32 {
		runes = append(runes, rune(v))
		if !seen16[int16(v)] {
			seen16[int16(v)] = true
			i16 = append(i16, int16(v))
			u16 = append(u16, uint16(v))
		}
		i64 = append(i64, int64(v), int64(v)<<32+int64(v&0xff))
		ints = append(ints, int(v), int(v)<<32+5)
		u32 = append(u32, uint32(v))
		u64 = append(u64, uint64(uint32(v)), uint64(v)<<31|1)
		f32 = append(f32, float32(v)+0.5)
		f64 = append(f64, float64(v)+0.25)
		c128 = append(c128, complex(float64(v), 1), complex(1, float64(v)+0.5))
		strs = append(strs, string(rune(v&0x1fffff)), fmt.Sprint(v))
	}
	dedup := func(in []string) []string {
		m := map[string]bool{}
		var out []string
		for _, s := range in {
			if !m[s] {
				m[s] = true
				out = append(out, s)
			}
		}
		return out
	}
	strs = dedup(strs)
	dedupU := func(in []uint64) []uint64 {
		m := map[uint64]bool{}
		var out []uint64
		for _, s := range in {
			if !m[s] {
				m[s] = true
				out = append(out, s)
			}
		}
		return out
	}
	u64 = dedupU(u64)
	n := vkit.N(60, 3000)
	r.ParallelCases(n, vkit.Workers(), func(i int) {
		switch i % 15 {
		case 0:
			keyTypeCase(r, i, "int32", i32, func(a, b int32) bool { return uint32(a) < uint32(b) }, true)
		case 1:
			keyTypeCase(r, i, "rune", runes, func(a, b rune) bool { return uint32(a) < uint32(b) }, true)
		case 2:
			keyTypeCase(r, i, "int16", i16, func(a, b int16) bool { return uint16(a) < uint16(b) }, true)
		case 3:
			keyTypeCase(r, i, "int64", i64, func(a, b int64) bool { return uint64(a) < uint64(b) }, true)
		case 4:
			keyTypeCase(r, i, "int", ints, func(a, b int) bool { return uint64(a) < uint64(b) }, true)
		case 5:
			keyTypeCase(r, i, "uint16", u16, func(a, b uint16) bool { return a < b }, true)
		case 6:
			keyTypeCase(r, i, "uint32", u32, func(a, b uint32) bool { return a < b }, true)
		case 7:
			keyTypeCase(r, i, "uint64", u64, func(a, b uint64) bool { return a < b }, true)
		case 8:
			keyTypeCase(r, i, "float32", f32, func(a, b float32) bool { return math.Float32bits(a) < math.Float32bits(b) }, true)
		case 9:
			keyTypeCase(r, i, "float64", f64, func(a, b float64) bool { return math.Float64bits(a) < math.Float64bits(b) }, true)
		case 10:
			keyTypeCase(r, i, "complex128", c128, func(a, b complex128) bool {
				if real(a) != real(b) {
					return math.Float64bits(real(a)) < math.Float64bits(real(b))
				}
				return math.Float64bits(imag(a)) < math.Float64bits(imag(b))
			}, false)
		case 11:
			keyTypeCase(r, i, "bool", []bool{false, true}, func(a, b bool) bool { return !a && b }, true)
		case 12:
			bs := make([]byte, 0, 32)
			for k := 0; k < 32; k++ {
				bs = append(bs, byte(k*37))
			}
			keyTypeCase(r, i, "byte", bs, func(a, b byte) bool { return a < b }, true)
		default:
			keyTypeCase(r, i, "string", strs, func(a, b string) bool { return a < b }, true)
		}
	})
	r.Finish()
}
