//go:build tools

package tools

import (
	_ "github.com/anishathalye/porcupine"
	_ "github.com/cilium/statedb"
	_ "github.com/cilium/statedb/reconciler"
)
