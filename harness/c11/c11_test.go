package c11

import (
	"testing"

	"verifharness/partsim"
	"verifharness/vkit"
)

const rule = "random histories of part.Tree transactions (insert/modify/delete/reads/clones/iterators, grow/shrink fan-out phases, " +
	"abandoned transactions, un-notified side branches from older versions) checked against a sorted-map model; " +
	"non-trivial = at least one retained older version, clone or iterator was re-verified after a later transaction that changed keys; distinct = hash of the operation log"

func run(t *testing.T, part string, rootOnly bool, n int) {
	r := vkit.Start(t, "C11", part, "exploration", rule)
	r.Assume("values are unique per write", "only one transaction in flight per tree lineage; clones are only read", "side branches commit without Notify (a tree version is the base of at most one notified transaction)")
	r.Require("persistence_rechecks", "notified_commits")
	r.ParallelCases(n, vkit.Workers(), func(i int) {
		partsim.RunHistory(r, i, partsim.Opts{RootOnly: rootOnly, CheckContents: true, Txns: 30, MaxOps: 24})
	})
	r.Finish()
}

func TestVerif_Model(t *testing.T)         { run(t, "model", false, vkit.N(3000, 150000)) }
func TestVerif_ModelRootOnly(t *testing.T) { run(t, "model-rootonly", true, vkit.N(600, 30000)) }

// Race/checkptr slice: the same histories under the race detector (which also enables checkptr for the
// unsafe node casts) with several histories running concurrently.
func TestVerifRace_Model(t *testing.T) { run(t, "model-race", false, vkit.N(300, 6000)) }
