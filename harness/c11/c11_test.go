package c11

import (
	"bytes"
	"fmt"
	"sort"
	"strings"
	"testing"

	"github.com/cilium/statedb/part"

	"verifharness/partsim"
	"verifharness/vkit"
)

const rule = "random histories of part.Tree transactions (insert/modify/delete/reads/clones/iterators, grow/shrink fan-out phases, " +
	"abandoned transactions, un-notified side branches from older versions) checked against a sorted-map model; " +
	"non-trivial = at least one retained older version, clone or iterator was re-verified after a later transaction that changed keys; distinct = hash of the operation log"

func runLong(t *testing.T, part string, n int) {
	r := vkit.Start(t, "C11", part, "exploration", rule+" (long-key variant: most keys start with one of three nested stems of 200-5000 bytes)")
	r.Require("persistence_rechecks", "notified_commits")
	r.ParallelCases(n, vkit.Workers(), func(i int) {
		partsim.RunHistory(r, i, partsim.Opts{LongKeys: true, CheckContents: true, Txns: 14, MaxOps: 12})
	})
	r.Finish()
}

func run(t *testing.T, part string, rootOnly bool, n int) {
	r := vkit.Start(t, "C11", part, "exploration", rule)
	r.Assume("values are unique per write", "only one transaction in flight per tree lineage; clones are only read", "side branches commit without Notify (a tree version is the base of at most one notified transaction)")
	r.Require("persistence_rechecks", "notified_commits")
	r.ParallelCases(n, vkit.Workers(), func(i int) {
		partsim.RunHistory(r, i, partsim.Opts{RootOnly: rootOnly, CheckContents: true, Txns: 30, MaxOps: 24})
	})
	r.Finish()
}

func TestVerif_Model(t *testing.T)         { run(t, "model", false, vkit.N(3000, 150000)) }
func TestVerif_ModelRootOnly(t *testing.T) { run(t, "model-rootonly", true, vkit.N(600, 30000)) }
func TestVerif_ModelLongKeys(t *testing.T) { runLong(t, "model-longkeys", vkit.N(400, 20000)) }

// Key length limit: one probe per length. Lengths of 65536 bytes and more fail today (16-bit length fields): known findings.
func TestVerif_KeyLengthLimit(t *testing.T) {
	r := vkit.Start(t, "C11", "key-length", "exploration", "one probe per key length n in {255, 256, 257, 4096, 65534, 65535, 65536, 70000, 131072}: insert a^n and a^n+b, read both back with Get, Prefix, LowerBound and iteration; distinct = n")
	r.Require("probes")
	for i, n := range []int{255, 256, 257, 4096, 65534, 65535, 65536, 70000, 131072} {
		for _, probe := range [][]byte{bytes.Repeat([]byte{'a'}, n)} {
			tr := part.New[int]()
			k2 := append(bytes.Clone(probe[:n-1]), 'b')
			_, _, tr = tr.Insert(probe, 1)
			_, _, tr = tr.Insert(k2, 2)
			_, _, tr = tr.Insert([]byte("zz"), 3)
			bad := ""
			if v, _, ok := tr.Get(probe); !ok || v != 1 {
				bad = "Get of the inserted key fails"
			}
			if v, _, ok := tr.Get(k2); !ok || v != 2 {
				bad = "Get of the inserted sibling key fails"
			}
			cnt := 0
			for k, v := range tr.All {
				cnt++
				if v == 1 && !bytes.Equal(k, probe) || v == 2 && !bytes.Equal(k, k2) {
					bad = "iteration returns a different key than was inserted"
				}
			}
			if cnt != 3 || tr.Len() != 3 {
				bad = "wrong number of entries"
			}
			it, _ := tr.Prefix(probe[:n-1])
			pc := 0
			for range it.All {
				pc++
			}
			if pc != 2 && bad == "" {
				bad = "Prefix of the common stem does not return both keys"
			}
			r.Count("probes", 1)
			r.Case(uint64(n), true)
			if bad != "" {
				r.Violation(fmt.Sprintf("key-length/n=%d", n), i, map[string]any{"message": fmt.Sprintf("keys of %d bytes: %s", n, bad)})
			}
		}
	}
	r.Sample(map[string]any{"lengths": []int{255, 256, 257, 4096, 65534, 65535, 65536, 70000, 131072}})
	r.Finish()
}

// Race/checkptr slice: the same histories under the race detector (which also enables checkptr for the
// unsafe node casts) with several histories running concurrently.
func TestVerifRace_Model(t *testing.T) { run(t, "model-race", false, vkit.N(300, 6000)) }

// A transaction hands out a new internal id with every iterator, clone and commit; nodes carry the id of the transaction that may
// still edit them in place. After 2^32 ids on one lineage the counter must not meet ids that nodes of older versions still carry.
func TestVerif_TxnIDWrap(t *testing.T) {
	r := vkit.Start(t, "C11", "txnid-wrap", "exploration", "one probe: a version, a clone and an iterator are retained; the transaction then takes 2^32 iterators (each uses up one internal transaction id) and, at each of the 32 ids "+
		"around the point where the counter has gone once around, writes below an inner node it has not touched since (one still shared with the retained version, one with the clone); the retained values must be unchanged")
	r.Require("ids_burnt")
	const rounds = 32
	key := func(fam byte, r int, leaf byte) []byte { return []byte{fam, byte('A' + r), leaf} }
	model := map[string]uint64{}
	tree0 := part.New[uint64]()
	txn := tree0.Txn()
	for q := 0; q < rounds; q++ {
		for _, fam := range []byte{'s', 'u'} {
			for _, leaf := range []byte{'a', 'b'} {
				txn.Insert(key(fam, q, leaf), 1)
				model[string(key(fam, q, leaf))] = 1
			}
		}
	}
	v1 := txn.Commit()
	dump := func(it part.Iterator[uint64]) string {
		var b strings.Builder
		for k, v, ok := it.Next(); ok; k, v, ok = it.Next() {
			fmt.Fprintf(&b, "%s=%d ", k, v)
		}
		return b.String()
	}
	want := func(m map[string]uint64) string {
		ks := make([]string, 0, len(m))
		for k := range m {
			ks = append(ks, k)
		}
		sort.Strings(ks)
		var b strings.Builder
		for _, k := range ks {
			fmt.Fprintf(&b, "%s=%d ", k, m[k])
		}
		return b.String()
	}
	wantV1 := want(model)
	w := v1.Txn()
	for q := 0; q < rounds; q++ { // the 's' subtrees now belong to this transaction; the 'u' subtrees are still the retained version's
		w.Insert(key('s', q, 'a'), 2)
		model[string(key('s', q, 'a'))] = 2
	}
	wantClone := want(model)
	clone := w.Clone()
	it := w.Iterator()
	const n = 1<<32 - 12
	for i := 0; i < n; i++ {
		w.Iterator()
	}
	burnt := int64(n)
	for q := 0; q < rounds; q++ {
		for _, fam := range []byte{'s', 'u'} {
			w.Insert(key(fam, q, 'b'), uint64(100+q))
			model[string(key(fam, q, 'b'))] = uint64(100 + q)
		}
		for _, c := range []struct{ name, got, want string }{
			{"the retained version", dump(v1.Iterator()), wantV1},
			{"the clone taken before the ids were used up", dump(clone.Iterator()), wantClone},
			{"the iterator taken before the ids were used up", dump(it), wantClone},
		} {
			if c.got != c.want {
				r.Violation("persistence/txnid-wrap", q, map[string]any{"message": fmt.Sprintf("%s changed after %d transaction ids on one lineage: holds [%s], want [%s]", c.name, burnt, c.got, c.want)})
			}
		}
		w.Iterator()
		burnt++
	}
	r.Count("ids_burnt", burnt)
	v2 := w.Commit()
	if got := dump(v2.Iterator()); got != want(model) || v2.Len() != len(model) || v1.Len() != 4*rounds {
		r.Violation("persistence/txnid-wrap", 99, map[string]any{"message": fmt.Sprintf("the new version holds [%s] (Len %d), want [%s]", got, v2.Len(), want(model))})
	}
	r.Case(1, true)
	r.Finish()
}
