package c06

import (
	"fmt"
	"sync"
	"sync/atomic"
	"testing"
	"time"

	"github.com/cilium/statedb"

	"verifharness/concw"
	"verifharness/dbsim"
	"verifharness/hookctl"
	"verifharness/vkit"
)

const rule = "random histories (schemas with part and LPM indexes) with up to 40 retained watch channels from GetWatch/ListWatch/PrefixWatch/LowerBoundWatch/AllWatch on every index and from InsertWatch, taken from fresh snapshots, " +
	"older retained snapshots and inside write transactions; after every Commit the model decides whether each query's result changed (object appeared/replaced/disappeared; any table change for table-wide watches) and the channel must be closed; " +
	"after every Abort no channel may have closed; no channel may be closed at hand-out by a fresh snapshot; at the hook points commit.beforeRootLock and commit.rootLocked (fault enumeration inside Commit) no channel may have closed yet, " +
	"and whenever a channel is found closed a fresh ReadTxn must show a newer table revision; non-trivial = at least 3 must-close/no-close verdicts; distinct = hash of the operation log"

func TestVerif_Histories(t *testing.T) {
	r := vkit.Start(t, "C06", "histories", "fault_enumeration", rule)
	r.Assume("spurious closes are allowed except after Abort, at hand-out and before the root store", "channels obtained inside a write transaction are held only to changes of later transactions; InsertWatch channels to the next change of the key")
	r.Require("watch_verdicts", "watch_handouts", "commits", "aborts", "distinct:points")
	ctl := hookctl.Install(vkit.Seed())
	defer ctl.Uninstall()
	var monitors sync.Map
	ctl.OnPoint(func(point, handle string) {
		if f, ok := monitors.Load(handle); ok {
			f.(func(string, string))(point, handle)
		}
	})
	o := dbsim.Opts{Tables: 2, Txns: 25, MaxOps: 8, ProbesPerIndex: 2, AbortPct: 25, Watches: 40, Retain: 4,
		Report: map[string]bool{"watch": true},
		OnSim: func(s *dbsim.Sim) func() {
			monitors.Store(s.Handle, s.CommitPhaseMonitor())
			return func() { monitors.Delete(s.Handle) }
		}}
	r.ParallelCases(vkit.N(1500, 60000), vkit.Workers(), func(i int) {
		dbsim.RunPlain(r, i, o, func(s *dbsim.Sim) bool { return s.WatchVerdicts() >= 3 })
	})
	r.Finish()
}

// Wide fan-out: the node under a stored prefix key grows past and shrinks below every radix node size (sweep transactions) while
// Get/List/Prefix watch channels of that prefix and of keys below it are retained: the channel of a node replaced by a promotion or
// demotion must close like any other.
func TestVerif_HistoriesWide(t *testing.T) {
	r := vkit.Start(t, "C06", "histories-wide", "fault_enumeration", rule+" (variant: one table with wide fan-out ids and sweep transactions)")
	r.Require("watch_verdicts", "watch_handouts", "commits")
	o := dbsim.Opts{Tables: 1, Txns: 40, MaxOps: 16, ProbesPerIndex: 2, AbortPct: 15, Watches: 60, Retain: 2, SchemaPick: []int{4},
		Report: map[string]bool{"watch": true}}
	r.ParallelCases(vkit.N(500, 25000), vkit.Workers(), func(i int) {
		dbsim.RunPlain(r, i, o, func(s *dbsim.Sim) bool { return s.WatchVerdicts() >= 3 })
	})
	r.Finish()
}

// Concurrent waiters under the race detector: every waiter that wakes up on a channel takes a ReadTxn immediately and
// must see a newer table revision than the snapshot its channel came from; every channel whose query result is changed
// by a commit must wake its waiter by the time Commit returned (bounded: the committer checks a flag after Commit).
func TestVerifRace_Waiters(t *testing.T) {
	r := vkit.Start(t, "C06", "waiters", "fault_enumeration", "writer commits under delay injection at the hook points inside Commit while one waiter goroutine per watch channel (Get/List/All on present and absent keys) "+
		"blocks on its channel; a woken waiter takes a ReadTxn at once and must see a newer table revision; non-trivial = at least one waiter woke up; distinct = (seed, round)")
	r.Require("wakeups", "rounds")
	ctl := hookctl.Install(vkit.Seed())
	defer ctl.Uninstall()
	ctl.SetStress(true)
	rounds := vkit.N(150, 5000)
	db := statedb.New()
	tabs := concw.NewTables(db, "w", 2)
	var early atomic.Int64
	for round := 0; round < rounds; round++ {
		rng := r.Rand(round)
		rt := db.ReadTxn()
		var wg sync.WaitGroup
		type waiter struct {
			ch   <-chan struct{}
			rev  uint64
			tbl  statedb.Table[*concw.Row]
			woke atomic.Bool
		}
		var ws []*waiter
		for i := 0; i < 6; i++ {
			tb := tabs[rng.IntN(2)]
			id := fmt.Sprint(rng.IntN(4))
			var ch <-chan struct{}
			switch rng.IntN(3) {
			case 0:
				_, _, ch, _ = tb.GetWatch(rt, concw.IDIndex.Query(id))
			case 1:
				_, ch = tb.ListWatch(rt, concw.TagIndex.Query("tag"+id))
			default:
				_, ch = tb.AllWatch(rt)
			}
			w := &waiter{ch: ch, rev: tb.Revision(rt), tbl: tb}
			ws = append(ws, w)
		}
		stop := make(chan struct{})
		for _, w := range ws {
			wg.Add(1)
			go func(w *waiter) {
				defer wg.Done()
				select {
				case <-w.ch:
					w.woke.Store(true)
					if rev := w.tbl.Revision(db.ReadTxn()); rev <= w.rev {
						early.Add(1)
						r.Violation("closed-before-visible", round, map[string]any{"message": fmt.Sprintf("waiter woke up but a fresh ReadTxn shows revision %d <= %d of its snapshot", rev, w.rev)})
					}
					r.Count("wakeups", 1)
				case <-stop:
				}
			}(w)
		}
		wt := db.WriteTxn(tabs[0], tabs[1])
		for i := 0; i < 1+rng.IntN(3); i++ {
			id := fmt.Sprint(rng.IntN(4))
			tb := tabs[rng.IntN(2)]
			if rng.IntN(3) == 0 {
				tb.Delete(wt, &concw.Row{ID: id})
			} else {
				tb.Insert(wt, &concw.Row{ID: id, V: int64(round), Tag: "tag" + id})
			}
		}
		if rng.IntN(6) == 0 {
			wt.Abort()
			time.Sleep(200 * time.Microsecond)
			for _, w := range ws {
				if w.woke.Load() {
					r.Violation("woken-by-abort", round, map[string]any{"message": "a waiter woke up although the only transaction aborted"})
				}
			}
		} else {
			wt.Commit()
		}
		close(stop)
		wg.Wait()
		r.Count("rounds", 1)
		r.Case(uint64(round), true)
	}
	r.Count("interleaving_signatures", int64(ctl.Signatures()))
	r.Sample(map[string]any{"shape": "6 waiters (GetWatch/ListWatch/AllWatch) x 1 committer per round, delays injected at commit hook points", "rounds": rounds})
	r.Finish()
}

// TestVerif_BulkTransactions: transactions that change thousands of objects at once (initial synchronisation, resynchronisation,
// DeleteAll). For every object a GetWatch channel (primary index), a ListWatch channel of its own tag (non-unique index) and an
// InsertWatch channel are retained beforehand; when the Commit of the bulk transaction has returned, every one of them must be closed
// (c06r8-2: notification handed to a goroutine above a size threshold), and an aborted bulk transaction must close none.
func TestVerif_BulkTransactions(t *testing.T) {
	r := vkit.Start(t, "C06", "bulk", "exploration", "bulk write transactions over 3 000-20 000 objects of one table (update all, delete every second, DeleteAll, re-insert all; one aborted), with a GetWatch, a ListWatch(tag) "+
		"and an InsertWatch channel retained per object: all closed when Commit has returned, none closed by the aborted transaction; non-trivial = at least 1 000 channels judged; distinct = (size, step)")
	r.Require("channels_judged")
	sizes := []int{3000, 5000, 9000}
	if vkit.Tier() == "thorough" {
		sizes = append(sizes, 20000, 70000)
	}
	closed := func(c <-chan struct{}) bool {
		select {
		case <-c:
			return true
		default:
			return false
		}
	}
	for si, n := range sizes {
		db := statedb.New()
		tb := concw.NewTables(db, "bulk", 1)[0]
		type held struct {
			what string
			id   string
			c    <-chan struct{}
		}
		var hs []held
		judge := func(step string, mustClose bool) {
			bad, total := 0, 0
			first := ""
			for _, h := range hs {
				total++
				if closed(h.c) != mustClose {
					bad++
					if first == "" {
						first = h.what + " of " + h.id
					}
				}
			}
			r.Count("channels_judged", int64(total))
			r.Case(vkit.NewHash().Str("bulk").Int(int64(n)).Str(step).Sum(), total >= 1000)
			if bad > 0 {
				key := "watch/not-closed/bulk"
				msg := "still open when the Commit of the transaction that changed every watched object had returned"
				if !mustClose {
					key, msg = "watch/closed-by-abort/bulk", "closed although the transaction was aborted"
				}
				r.Violation(key, si, map[string]any{"message": fmt.Sprintf("%d objects, step %s: %d of %d retained channels %s (first: %s)", n, step, bad, total, msg, first)})
			}
			hs = hs[:0]
		}
		id := func(i int) string { return fmt.Sprintf("o%06d", i) }
		// initial synchronisation, InsertWatch channels retained
		w := db.WriteTxn(tb)
		for i := 0; i < n; i++ {
			_, _, c, _ := tb.InsertWatch(w, &concw.Row{ID: id(i), V: 0, Tag: "t" + id(i)})
			hs = append(hs, held{"InsertWatch", id(i), c})
		}
		w.Commit()
		hs = hs[:0] // (judged after the next change of each key, below)
		retain := func() {
			rt := db.ReadTxn()
			for i := 0; i < n; i++ {
				_, _, c, _ := tb.GetWatch(rt, concw.IDIndex.Query(id(i)))
				hs = append(hs, held{"GetWatch", id(i), c})
				if i%3 == 0 {
					_, c2 := tb.ListWatch(rt, concw.TagIndex.Query("t"+id(i)))
					hs = append(hs, held{"ListWatch(tag)", id(i), c2})
				}
			}
		}
		// aborted bulk update: nothing may close
		retain()
		w = db.WriteTxn(tb)
		for i := 0; i < n; i++ {
			tb.Insert(w, &concw.Row{ID: id(i), V: 1, Tag: "t" + id(i)})
		}
		w.Abort()
		judge("aborted-update-all", false)
		// update all (InsertWatch channels of the new versions retained for the next step)
		retain()
		var iw []held
		w = db.WriteTxn(tb)
		for i := 0; i < n; i++ {
			_, _, c, _ := tb.InsertWatch(w, &concw.Row{ID: id(i), V: 2, Tag: "t" + id(i)})
			iw = append(iw, held{"InsertWatch", id(i), c})
		}
		w.Commit()
		judge("update-all", true)
		// delete every second object
		retain()
		kept := hs[:0:0]
		for _, h := range hs {
			var k int
			fmt.Sscanf(h.id, "o%d", &k)
			if k%2 == 0 {
				kept = append(kept, h)
			}
		}
		hs = kept
		for k, h := range iw {
			if k%2 == 0 {
				hs = append(hs, h)
			}
		}
		w = db.WriteTxn(tb)
		for i := 0; i < n; i += 2 {
			tb.Delete(w, &concw.Row{ID: id(i)})
		}
		w.Commit()
		judge("delete-every-second", true)
		// DeleteAll of the rest
		retain()
		kept = hs[:0:0]
		for _, h := range hs {
			var k int
			fmt.Sscanf(h.id, "o%d", &k)
			if k%2 == 1 {
				kept = append(kept, h)
			}
		}
		hs = kept
		w = db.WriteTxn(tb)
		tb.DeleteAll(w)
		w.Commit()
		judge("delete-all", true)
		// re-insert all: the channels of the absent keys
		retain()
		w = db.WriteTxn(tb)
		for i := 0; i < n; i++ {
			tb.Insert(w, &concw.Row{ID: id(i), V: 3, Tag: "t" + id(i)})
		}
		w.Commit()
		judge("reinsert-all", true)
	}
	r.Finish()
}
