package c12

import (
	"testing"

	"verifharness/partsim"
	"verifharness/vkit"
)

const rule = "random histories of part.Tree transactions with retained watch channels (root, Get, Prefix, InsertWatch/ModifyWatch; from trees and from " +
	"inside transactions); at every Notify the model decides which channels must be closed and that the previous root watch is closed exactly when a key changed; " +
	"no channel may close at hand-out, during a transaction, between Commit and Notify, after an abandoned transaction or by an un-notified side branch; " +
	"non-trivial = at least two channel verdicts were given; distinct = hash of the operation log"

func run(t *testing.T, part string, rootOnly bool, n int) {
	r := vkit.Start(t, "C12", part, "exploration", rule)
	r.Assume("spurious closes of Get/Prefix channels are allowed (only must-close is demanded for them); the root watch is held to exactness",
		"channels from Get/Prefix made inside a transaction are held only to later transactions", "values are unique per write")
	r.Require("watch_verdicts", "notified_commits")
	r.ParallelCases(n, vkit.Workers(), func(i int) {
		partsim.RunHistory(r, i, partsim.Opts{RootOnly: rootOnly, CheckWatches: true, Txns: 30, MaxOps: 16})
	})
	r.Finish()
}

func TestVerif_Watches(t *testing.T)         { run(t, "watches", false, vkit.N(5000, 300000)) }
func TestVerif_WatchesRootOnly(t *testing.T) { run(t, "watches-rootonly", true, vkit.N(1500, 60000)) }
