package c12

import (
	"fmt"
	"sync"
	"sync/atomic"
	"testing"

	"github.com/cilium/statedb/part"

	"verifharness/partsim"
	"verifharness/vkit"
)

const rule = "random histories of part.Tree transactions with retained watch channels (root, Get, Prefix, InsertWatch/ModifyWatch; from trees and from " +
	"inside transactions); at every Notify the model decides which channels must be closed and that the previous root watch is closed exactly when a key changed; " +
	"no channel may close at hand-out, during a transaction, between Commit and Notify, after an abandoned transaction or by an un-notified side branch; " +
	"non-trivial = at least two channel verdicts were given; distinct = hash of the operation log"

func run(t *testing.T, part string, rootOnly bool, n int) {
	r := vkit.Start(t, "C12", part, "exploration", rule)
	r.Assume("spurious closes of Get/Prefix channels are allowed (only must-close is demanded for them); the root watch is held to exactness",
		"channels from Get/Prefix made inside a transaction are held only to later transactions", "values are unique per write")
	r.Require("watch_verdicts", "notified_commits")
	r.ParallelCases(n, vkit.Workers(), func(i int) {
		partsim.RunHistory(r, i, partsim.Opts{RootOnly: rootOnly, CheckWatches: true, Txns: 30, MaxOps: 16})
	})
	r.Finish()
}

func TestVerif_Watches(t *testing.T)         { run(t, "watches", false, vkit.N(5000, 300000)) }
func TestVerif_WatchesRootOnly(t *testing.T) { run(t, "watches-rootonly", true, vkit.N(1500, 60000)) }

// TestVerifRace_SharedLineage: tree values are immutable and may be used from any goroutine, and all trees of one lineage share the
// slot through which a finished transaction object is handed on for reuse. One goroutine owns the main line (transaction, retained
// channels, CommitAndNotify, verdicts: previous root channel and the Get/Prefix channels of the changed key closed, those of an
// untouched key still open until its turn); two others keep opening transactions on the latest or an older tree of the same lineage,
// write, and commit without notifying or abandon. Under the race detector: a transaction object that is handed on while its Notify is
// still running shows as a data race and as channels that stay open.
func TestVerifRace_SharedLineage(t *testing.T) {
	r := vkit.Start(t, "C12", "shared-lineage-race", "exploration",
		"real-time runs under the race detector: a main-line goroutine (Txn, Insert/Delete of one key, CommitAndNotify, channel verdicts) against two goroutines opening "+
			"transactions on trees of the same lineage (commit without notify, or abandon); non-trivial = the side goroutines opened at least one transaction during the run; distinct = run index")
	r.Require("watch_verdicts", "notified_commits", "side_txns")
	runs := vkit.N(6, 120)
	for run := 0; run < runs && r.Violations() < 3; run++ {
		rng := r.Rand(run)
		tree := part.New[int]()
		var latest atomic.Pointer[part.Tree[int]]
		t0 := tree
		latest.Store(&t0)
		stop := make(chan struct{})
		var side atomic.Int64
		var wg sync.WaitGroup
		for g := 0; g < 2; g++ {
			wg.Add(1)
			go func(g int) {
				defer wg.Done()
				lrng := r.Rand(run, uint64(g)+1)
				var old *part.Tree[int]
				for i := 0; ; i++ {
					select {
					case <-stop:
						return
					default:
					}
					base := latest.Load()
					if old != nil && lrng.IntN(3) == 0 {
						base = old
					}
					if lrng.IntN(16) == 0 {
						old = base
					}
					tx := base.Txn()
					for k := lrng.IntN(3); k >= 0; k-- {
						tx.Insert([]byte{byte('s'), byte(g), byte(lrng.IntN(8))}, i)
					}
					if lrng.IntN(2) == 0 {
						tx.Commit() // a side branch: committed, never notified
					}
					side.Add(1)
				}
			}(g)
		}
		steps := 4000
		present := map[byte]bool{}
		for i := 0; i < steps && r.Violations() < 3; i++ {
			cur := latest.Load()
			k := byte(rng.IntN(12))
			other := byte(12 + rng.IntN(4)) // never written by the main line
			key := []byte{'m', k}
			rootW := cur.RootWatch()
			_, getW, _ := cur.Get(key)
			_, prefW := cur.Prefix([]byte{'m', k})
			_, otherW, _ := cur.Get([]byte{'m', other, 0})
			tx := cur.Txn()
			if present[k] && rng.IntN(2) == 0 {
				tx.Delete(key)
				delete(present, k)
			} else {
				tx.Insert(key, i)
				present[k] = true
			}
			next := tx.CommitAndNotify()
			r.Count("notified_commits", 1)
			closed := func(c <-chan struct{}) bool {
				select {
				case <-c:
					return true
				default:
					return false
				}
			}
			for name, c := range map[string]<-chan struct{}{"root": rootW, "get": getW, "prefix": prefW} {
				r.Count("watch_verdicts", 1)
				if !closed(c) {
					r.Violation("watch/not-closed/shared-lineage/"+name, run, map[string]any{"message": fmt.Sprintf("run %d step %d: the %s channel of the previous tree for key m%d is open after CommitAndNotify returned, with other goroutines opening transactions on trees of the same lineage", run, i, name, k)})
				}
			}
			_ = otherW
			latest.Store(&next)
		}
		close(stop)
		wg.Wait()
		r.Count("side_txns", side.Load())
		r.Case(uint64(run), side.Load() > 0)
	}
	r.Finish()
}

// TestVerif_BulkNotify: one transaction that changes thousands of keys (the number of marked channels passes any internal batching
// threshold). Get and Prefix channels of every key are taken from the previous tree; when CommitAndNotify (or Commit followed by
// Notify) has returned all of them and the root channel must be closed; between Commit and Notify none may be (c06r8-2).
func TestVerif_BulkNotify(t *testing.T) {
	r := vkit.Start(t, "C12", "bulk-notify", "exploration", "transactions over 3 000-70 000 keys with a Get and a Prefix channel retained per key from the previous tree: insert all, replace all, delete all; "+
		"Commit+Notify and CommitAndNotify; all channels closed when Notify has returned, none closed before; non-trivial = at least 1 000 channels judged; distinct = (size, step)")
	r.Require("watch_verdicts", "notified_commits")
	sizes := []int{3000, 5000, 9000}
	if vkit.Tier() == "thorough" {
		sizes = append(sizes, 30000, 70000)
	}
	closed := func(c <-chan struct{}) bool {
		select {
		case <-c:
			return true
		default:
			return false
		}
	}
	for si, n := range sizes {
		for _, rootOnly := range []bool{false, true} {
			var tree part.Tree[int]
			if rootOnly {
				tree = part.New[int](part.RootOnlyWatch)
			} else {
				tree = part.New[int]()
			}
			key := func(i int) []byte { return []byte(fmt.Sprintf("k%06d", i)) }
			for step, what := range []string{"insert-all", "replace-all", "delete-all"} {
				var chans []<-chan struct{}
				for i := 0; i < n; i++ {
					_, c, _ := tree.Get(key(i))
					chans = append(chans, c)
					if i%4 == 0 {
						_, pc := tree.Prefix(key(i))
						chans = append(chans, pc)
					}
				}
				chans = append(chans, tree.RootWatch())
				tx := tree.Txn()
				for i := 0; i < n; i++ {
					if what == "delete-all" {
						tx.Delete(key(i))
					} else {
						tx.Insert(key(i), step*n+i)
					}
				}
				early := 0
				var next part.Tree[int]
				if step%2 == 0 {
					next = tx.Commit()
					for _, c := range chans {
						if closed(c) {
							early++
						}
					}
					tx.Notify()
				} else {
					next = tx.CommitAndNotify()
				}
				open := 0
				for _, c := range chans {
					if !closed(c) {
						open++
					}
				}
				r.Count("notified_commits", 1)
				r.Count("watch_verdicts", int64(len(chans)))
				r.Case(vkit.NewHash().Str("bulk").Int(int64(n)).Str(what).Str(fmt.Sprint(rootOnly)).Sum(), len(chans) >= 1000)
				if early > 0 {
					r.Violation("watch/closed-before-notify/bulk", si, map[string]any{"message": fmt.Sprintf("%d keys, %s, rootOnly=%v: %d channels closed between Commit and Notify", n, what, rootOnly, early)})
				}
				if open > 0 {
					r.Violation("watch/not-closed/bulk", si, map[string]any{"message": fmt.Sprintf("%d keys, %s, rootOnly=%v: %d of %d channels of changed keys (and the root) still open when Notify had returned", n, what, rootOnly, open, len(chans))})
				}
				tree = next
			}
		}
	}
	r.Finish()
}
