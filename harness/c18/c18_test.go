package c18

import (
	"bytes"
	"encoding/binary"
	"fmt"
	"iter"
	"math"
	"math/big"
	"net"
	"net/netip"
	"slices"
	"sort"
	"strconv"
	"strings"
	"testing"

	"github.com/cilium/statedb"
	"github.com/cilium/statedb/index"
	"github.com/cilium/statedb/lpm"
	"github.com/cilium/statedb/part"

	"verifharness/vkit"
)

const rule = "bounded-exhaustive enumeration: all byte strings up to a length over a small alphabet containing 00/01/02/ff for both parts of a non-unique composite key, sorted by the " +
	"specification order (secondary, then primary, bytewise); the encoded keys must be strictly increasing (implies injectivity and order preservation for all pairs) and split back into the parts; " +
	"integer/bool/string/netip encoders and LPM keys over full small domains plus boundary sets and seeded samples; non-trivial = one adjacent pair (or one value) compared; distinct = each enumerated element is distinct by construction"

func enumStrings(alph []byte, maxLen int) [][]byte {
	out := [][]byte{{}}
	prev := [][]byte{{}}
	for l := 1; l <= maxLen; l++ {
		var next [][]byte
		for _, p := range prev {
			for _, c := range alph {
				next = append(next, append(bytes.Clone(p), c))
			}
		}
		out = append(out, next...)
		prev = next
	}
	sort.Slice(out, func(i, j int) bool { return bytes.Compare(out[i], out[j]) < 0 })
	return out
}

// escape is the specification of the escaping used inside composite keys (00 -> 01 01, 01 -> 01 02).
func escape(b []byte) []byte {
	var out []byte
	for _, c := range b {
		switch c {
		case 0:
			out = append(out, 1, 1)
		case 1:
			out = append(out, 1, 2)
		default:
			out = append(out, c)
		}
	}
	return out
}

func TestVerif_Composite(t *testing.T) {
	r := vkit.Start(t, "C18", "composite", "exploration", rule)
	r.Require("adjacent_pairs_compared")
	alph, maxLen := []byte{0x00, 0x01, 0x02, 0xff}, 3
	if vkit.Thorough() {
		alph, maxLen = []byte{0x00, 0x01, 0x02, 0x7f, 0xff}, 4
	}
	strs := enumStrings(alph, maxLen)
	var prev []byte
	var prevS, prevP []byte
	n := 0
	for si, s := range strs {
		for pi, p := range strs {
			k := statedb.VerifEncodeNonUniqueKey(p, s)
			if prev != nil {
				r.Count("adjacent_pairs_compared", 1)
				if bytes.Compare(prev, k) >= 0 {
					r.Violation("composite/order", si*len(strs)+pi, map[string]any{"message": "composite key not strictly increasing in (secondary, primary) order",
						"prev": fmt.Sprintf("sec=%x pri=%x key=%x", prevS, prevP, prev), "this": fmt.Sprintf("sec=%x pri=%x key=%x", s, p, k)})
				}
			}
			es, ep := statedb.VerifSplitNonUniqueKey(k)
			if !bytes.Equal(es, escape(s)) || !bytes.Equal(ep, escape(p)) {
				r.Violation("composite/split", si*len(strs)+pi, map[string]any{"message": "parts not recoverable", "sec": fmt.Sprintf("%x", s), "pri": fmt.Sprintf("%x", p),
					"gotSec": fmt.Sprintf("%x", es), "gotPri": fmt.Sprintf("%x", ep)})
			}
			if !bytes.Equal(statedb.VerifEncodeNonUniqueBytes(s), escape(s)) {
				r.Violation("composite/escape", si*len(strs)+pi, map[string]any{"message": "search-key escaping differs from the escaping inside composite keys", "sec": fmt.Sprintf("%x", s)})
			}
			prev, prevS, prevP = k, s, p
			n++
			r.Case(uint64(n), true)
		}
	}
	r.Count("strings_per_part", int64(len(strs)))
	r.SetExhaustive()
	r.Sample(map[string]any{"alphabet": fmt.Sprintf("%x", alph), "max_len": maxLen, "strings": len(strs), "pairs": n,
		"example": fmt.Sprintf("sec=%x pri=%x -> %x", strs[5], strs[7], statedb.VerifEncodeNonUniqueKey(strs[7], strs[5]))})
	r.Finish()
}

// Long primaries: one probe per (encoded primary length, continuation byte). The ones that fail today are the
// known finding D9 (16-bit primary length suffix breaks the tie-break once the escaped primary is >= 256 bytes).
func TestVerif_LongPrimary(t *testing.T) {
	r := vkit.Start(t, "C18", "long-primary", "exploration", rule)
	r.Require("probes")
	sec := []byte("s")
	i := 0
	for _, n := range []int{1, 100, 254, 255, 256, 257, 300, 511, 512, 513, 600, 1000} {
		for _, cont := range []byte{0x00, 0x01, 0x02, 0x41, 0xff} {
			i++
			p1 := bytes.Repeat([]byte{'p'}, n)
			p2 := append(bytes.Clone(p1), cont)
			k1 := statedb.VerifEncodeNonUniqueKey(p1, sec)
			k2 := statedb.VerifEncodeNonUniqueKey(p2, sec)
			r.Count("probes", 1)
			r.Case(uint64(n)<<8|uint64(cont), true)
			if bytes.Compare(k1, k2) >= 0 {
				r.Violation(fmt.Sprintf("long-primary/n=%d/next=%02x", n, cont), i, map[string]any{
					"message": "primary p (n bytes) sorts after p+next under the same secondary key", "n": n, "next": cont,
					"suffix_p": fmt.Sprintf("%x", k1[len(k1)-4:]), "suffix_p_next": fmt.Sprintf("%x", k2[len(k2)-6:])})
			}
			es, ep := statedb.VerifSplitNonUniqueKey(k2)
			if !bytes.Equal(es, sec) || !bytes.Equal(ep, escape(p2)) {
				r.Violation(fmt.Sprintf("long-primary-split/n=%d/next=%02x", n, cont), i, map[string]any{"message": "parts not recoverable"})
			}
		}
	}
	r.Sample(map[string]any{"probe": "secondary 's', primary 'p'*n vs 'p'*n+next", "lengths": []int{1, 100, 254, 255, 256, 257, 300, 511, 512, 513, 600, 1000}, "next": "00 01 02 41 ff"})
	r.Finish()
}

type obj struct {
	P []byte
	S []byte
}

func (o obj) TableHeader() []string { return []string{"P", "S"} }
func (o obj) TableRow() []string    { return []string{fmt.Sprintf("%x", o.P), fmt.Sprintf("%x", o.S)} }

var pIndex = statedb.Index[obj, []byte]{
	Name:       "p",
	FromObject: func(o obj) index.KeySet { return index.NewKeySet(index.Key(o.P)) },
	FromKey:    func(k []byte) index.Key { return index.Key(k) },
	Unique:     true,
}
var sIndex = statedb.Index[obj, []byte]{
	Name:       "s",
	FromObject: func(o obj) index.KeySet { return index.NewKeySet(index.Key(o.S)) },
	FromKey:    func(k []byte) index.Key { return index.Key(k) },
	Unique:     false,
}

// Black box: populate a non-unique index and read the order back through the public API.
func TestVerif_BlackBox(t *testing.T) {
	r := vkit.Start(t, "C18", "blackbox", "exploration", rule)
	r.Require("objects_read_in_order")
	strs := enumStrings([]byte{0x00, 0x01, 0x02, 0xff}, 2) // 21 strings
	db := statedb.New()
	tbl, err := statedb.NewTable(db, "objs", pIndex, sIndex)
	if err != nil {
		t.Fatal(err)
	}
	rng := r.Rand(0)
	// every primary gets one secondary; several primaries per secondary
	type pair struct{ s, p []byte }
	var pairs []pair
	wtxn := db.WriteTxn(tbl)
	perm := rng.Perm(len(strs))
	for _, i := range perm {
		p := strs[i]
		s := strs[rng.IntN(len(strs))]
		if rng.IntN(2) == 0 {
			s = strs[rng.IntN(4)]
		}
		pairs = append(pairs, pair{s, p})
		tbl.Insert(wtxn, obj{P: p, S: s})
	}
	// long primaries under one secondary (D9 shape), probed through List
	for _, n := range []int{255, 256, 300} {
		for _, cont := range [][]byte{nil, {0x00}, {0x02}} {
			p := append(bytes.Repeat([]byte{'p'}, n), cont...)
			pairs = append(pairs, pair{[]byte("long"), p})
			tbl.Insert(wtxn, obj{P: p, S: []byte("long")})
		}
	}
	rtxn := wtxn.Commit()
	sort.Slice(pairs, func(i, j int) bool {
		if c := bytes.Compare(pairs[i].s, pairs[j].s); c != 0 {
			return c < 0
		}
		return bytes.Compare(pairs[i].p, pairs[j].p) < 0
	})
	check := func(what string, got []obj, want []pair, caseIdx int) {
		ok := len(got) == len(want)
		for i := 0; ok && i < len(got); i++ {
			ok = bytes.Equal(got[i].P, want[i].p) && bytes.Equal(got[i].S, want[i].s)
		}
		r.Case(uint64(caseIdx), true)
		r.Count("objects_read_in_order", int64(len(got)))
		if !ok {
			key := "blackbox/" + what
			// attribute long-primary misorder to the same finding keys as the encoder probe
			for i := 0; i+1 < len(got); i++ {
				if bytes.Equal(got[i].S, []byte("long")) && bytes.Equal(got[i+1].S, []byte("long")) && bytes.Compare(got[i].P, got[i+1].P) > 0 {
					shorter, longer := got[i+1].P, got[i].P
					if len(longer) == len(shorter)+1 {
						key = fmt.Sprintf("long-primary/n=%d/next=%02x", len(shorter), longer[len(longer)-1])
					}
				}
			}
			var g, w []string
			for _, o := range got {
				g = append(g, fmt.Sprintf("%x/%.8x(%d)", o.S, o.P, len(o.P)))
			}
			for _, o := range want {
				w = append(w, fmt.Sprintf("%x/%.8x(%d)", o.s, o.p, len(o.p)))
			}
			r.Violation(key, caseIdx, map[string]any{"message": what + ": order/contents differ from (secondary, primary) order", "got": g, "want": w})
		}
	}
	ci := 0
	for _, s := range append(strs, []byte("long")) {
		var want []pair
		for _, p := range pairs {
			if bytes.Equal(p.s, s) {
				want = append(want, p)
			}
		}
		ci++
		check(fmt.Sprintf("List(%x)", s), statedb.Collect(tbl.List(rtxn, sIndex.Query(s))), want, ci)
		want = nil
		for _, p := range pairs {
			if bytes.HasPrefix(p.s, s) {
				want = append(want, p)
			}
		}
		ci++
		check(fmt.Sprintf("Prefix(%x)", s), statedb.Collect(tbl.Prefix(rtxn, sIndex.Query(s))), want, ci)
		want = nil
		for _, p := range pairs {
			if bytes.Compare(p.s, s) >= 0 {
				want = append(want, p)
			}
		}
		ci++
		check(fmt.Sprintf("LowerBound(%x)", s), statedb.Collect(tbl.LowerBound(rtxn, sIndex.Query(s))), want, ci)
	}
	// the same queries through a write transaction that has already written to the table (its index transaction is live and
	// search keys are escaped on the way in): all results are obtained first, in ascending and then in descending key order,
	// and consumed afterwards - a result must depend on its own key only (c18r8-1: escaped search key kept in a scratch buffer)
	w2 := db.WriteTxn(tbl)
	extra := obj{P: []byte("zz-extra"), S: []byte{0x01, 0x00}}
	tbl.Insert(w2, extra)
	pairs2 := append(append([]pair{}, pairs...), pair{extra.S, extra.P})
	sort.Slice(pairs2, func(i, j int) bool {
		if c := bytes.Compare(pairs2[i].s, pairs2[j].s); c != 0 {
			return c < 0
		}
		return bytes.Compare(pairs2[i].p, pairs2[j].p) < 0
	})
	qs := append(append([][]byte{}, strs...), []byte("long"))
	for pass := 0; pass < 2; pass++ {
		if pass == 1 {
			for i, j := 0, len(qs)-1; i < j; i, j = i+1, j-1 {
				qs[i], qs[j] = qs[j], qs[i]
			}
		}
		type held struct {
			what string
			seq  iter.Seq2[obj, statedb.Revision]
			want []pair
		}
		var hs []held
		for _, s := range qs {
			var wl, wp, wb []pair
			for _, p := range pairs2 {
				if bytes.Equal(p.s, s) {
					wl = append(wl, p)
				}
				if bytes.HasPrefix(p.s, s) {
					wp = append(wp, p)
				}
				if bytes.Compare(p.s, s) >= 0 {
					wb = append(wb, p)
				}
			}
			hs = append(hs, held{fmt.Sprintf("wtxn-held/List(%x)", s), tbl.List(w2, sIndex.Query(s)), wl},
				held{fmt.Sprintf("wtxn-held/Prefix(%x)", s), tbl.Prefix(w2, sIndex.Query(s)), wp},
				held{fmt.Sprintf("wtxn-held/LowerBound(%x)", s), tbl.LowerBound(w2, sIndex.Query(s)), wb})
		}
		for _, h := range hs {
			ci++
			check(h.what, statedb.Collect(h.seq), h.want, ci)
		}
	}
	w2.Abort()
	r.Sample(map[string]any{"objects": len(pairs), "queries": ci, "first": fmt.Sprintf("sec=%x pri=%x", pairs[0].s, pairs[0].p)})
	r.Finish()
}

type str string

func (s str) String() string { return string(s) }

func TestVerif_Encoders(t *testing.T) {
	r := vkit.Start(t, "C18", "encoders", "exploration", rule)
	r.Require("values")
	n := 0
	fail := func(key string, f string, a ...any) {
		r.Violation("encoder/"+key, n, map[string]any{"message": fmt.Sprintf(f, a...)})
	}
	tick := func() { n++; r.Case(uint64(n), true); r.Count("values", 1) }
	// Uint16: all values, order-preserving and fixed width
	var prev []byte
	for v := 0; v <= 0xffff; v++ {
		k := index.Uint16(uint16(v))
		if len(k) != 2 || prev != nil && bytes.Compare(prev, k) >= 0 {
			fail("uint16", "Uint16(%d)=%x not above Uint16(%d)=%x", v, k, v-1, prev)
		}
		if !bytes.Equal(k, index.Uint16(uint16(v))) {
			fail("uint16-eq", "Uint16(%d) not deterministic", v)
		}
		if !bytes.Equal(index.Int16(int16(v)), k) {
			fail("int16", "Int16(%d) != Uint16 of the same bits", int16(v))
		}
		prev = bytes.Clone(k)
		tick()
	}
	// 32/64 bit: boundary sets + seeded samples, sorted numerically -> keys strictly increasing
	rng := r.Rand(1)
	var u64 []uint64
	for _, b := range []uint64{0, 1, 2, 0x7f, 0x80, 0xff, 0x100, 0xffff, 0x10000, 0x7fffffff, 0x80000000, 0xffffffff, 0x100000000, 0x7fffffffffffffff, 0x8000000000000000, math.MaxUint64 - 1, math.MaxUint64} {
		u64 = append(u64, b)
	}
	samples := vkit.N(100000, 1000000)
	for i := 0; i < samples; i++ {
		v := rng.Uint64()
		switch rng.IntN(4) {
		case 0:
			v >>= uint(rng.IntN(64))
		case 1:
			v = uint64(1)<<uint(rng.IntN(64)) + uint64(rng.IntN(3)) - 1
		}
		u64 = append(u64, v)
	}
	sort.Slice(u64, func(i, j int) bool { return u64[i] < u64[j] })
	prev = nil
	var prevV uint64
	for _, v := range u64 {
		k := index.Uint64(v)
		if prev != nil {
			c := bytes.Compare(prev, k)
			if v == prevV && c != 0 || v != prevV && c >= 0 {
				fail("uint64", "Uint64(%d)=%x vs Uint64(%d)=%x", prevV, prev, v, k)
			}
		}
		if len(k) != 8 || binary.BigEndian.Uint64(k) != v || !bytes.Equal(index.Int64(int64(v)), k) {
			fail("uint64-width", "Uint64(%d)=%x", v, k)
		}
		prev, prevV = k, v
		tick()
	}
	var u32 []uint32
	for _, v := range u64 {
		u32 = append(u32, uint32(v), uint32(v>>32))
	}
	sort.Slice(u32, func(i, j int) bool { return u32[i] < u32[j] })
	prev = nil
	var prevV32 uint32
	for _, v := range u32 {
		k := index.Uint32(v)
		if prev != nil {
			c := bytes.Compare(prev, k)
			if v == prevV32 && c != 0 || v != prevV32 && c >= 0 {
				fail("uint32", "Uint32(%d)=%x vs Uint32(%d)=%x", prevV32, prev, v, k)
			}
		}
		if len(k) != 4 || !bytes.Equal(index.Int32(int32(v)), k) {
			fail("uint32-width", "Uint32(%d)=%x", v, k)
		}
		prev, prevV32 = k, v
		tick()
	}
	// Bool
	if bytes.Equal(index.Bool(true), index.Bool(false)) || !bytes.Equal(index.Bool(true), index.Bool(true)) || !bytes.Equal(index.Bool(false), index.Bool(false)) {
		fail("bool", "Bool not injective/deterministic")
	}
	tick()
	// String: key bytes are the string bytes (equal -> equal, different -> different)
	for _, s := range enumStrings([]byte{0x00, 0x01, 'a', 0xff}, 3) {
		k := index.String(string(s))
		if !bytes.Equal(k, s) {
			fail("string", "String(%q)=%x", s, k)
		}
		tick()
	}
	// NetIPAddr (within one family) and NetIPPrefix
	seenA := map[string]netip.Addr{}
	for i := 0; i < 20000; i++ {
		var a netip.Addr
		if rng.IntN(2) == 0 {
			var b [4]byte
			binary.BigEndian.PutUint32(b[:], rng.Uint32()>>uint(rng.IntN(32)))
			a = netip.AddrFrom4(b)
		} else {
			var b [16]byte
			binary.BigEndian.PutUint64(b[:8], rng.Uint64()|1<<63) // never v4-mapped
			binary.BigEndian.PutUint64(b[8:], rng.Uint64()>>uint(rng.IntN(64)))
			a = netip.AddrFrom16(b)
		}
		k := index.NetIPAddr(a)
		if len(k) != 16 {
			fail("netipaddr-width", "NetIPAddr(%v)=%x", a, k)
		}
		if o, ok := seenA[string(k)]; ok && o != a {
			fail("netipaddr", "NetIPAddr(%v) == NetIPAddr(%v)", a, o)
		}
		seenA[string(k)] = a
		bits := rng.IntN(a.BitLen() + 1)
		p := netip.PrefixFrom(a, bits)
		kp := index.NetIPPrefix(p)
		if !bytes.Equal(kp, index.NetIPPrefix(p.Masked())) || len(kp) != 17 || int(kp[16]) != bits {
			fail("netipprefix", "NetIPPrefix(%v)=%x", p, kp)
		}
		tick()
	}
	// Int over its whole domain (the platform's int): different values, different keys; its string form gives the same key
	seenI := map[string]int{}
	for _, v := range u64 {
		for _, n := range []int{int(int64(v)), -int(int64(v >> 1))} {
			k := index.Int(n)
			if o, ok := seenI[string(k)]; ok && o != n {
				fail("int-collision", "Int(%d) and Int(%d) give the same key %x", o, n, k)
				break
			}
			seenI[string(k)] = n
			if ks, err := index.IntString(strconv.Itoa(n)); err != nil || !bytes.Equal(ks, k) {
				fail("int-string", "IntString(%q)=(%x,%v), Int(%d)=%x", strconv.Itoa(n), ks, err, n, k)
				break
			}
		}
		tick()
	}
	// the string forms of the encoders (FromString of an index: AnyTable, script and HTTP queries): a decimal string inside the
	// domain gives the key of that value, a string outside it is refused - it must not be given the key of another value
	type parser struct {
		name     string
		parse    func(string) (index.Key, error)
		min, max *big.Int
		key      func(*big.Int) index.Key
	}
	bi := func(s string) *big.Int { b, _ := new(big.Int).SetString(s, 10); return b }
	parsers := []parser{
		{"Uint16String", index.Uint16String, bi("0"), bi("65535"), func(b *big.Int) index.Key { return index.Uint16(uint16(b.Uint64())) }},
		{"Uint32String", index.Uint32String, bi("0"), bi("4294967295"), func(b *big.Int) index.Key { return index.Uint32(uint32(b.Uint64())) }},
		{"Uint64String", index.Uint64String, bi("0"), bi("18446744073709551615"), func(b *big.Int) index.Key { return index.Uint64(b.Uint64()) }},
		{"Int16String", index.Int16String, bi("-32768"), bi("32767"), func(b *big.Int) index.Key { return index.Int16(int16(b.Int64())) }},
		{"Int32String", index.Int32String, bi("-2147483648"), bi("2147483647"), func(b *big.Int) index.Key { return index.Int32(int32(b.Int64())) }},
		{"Int64String", index.Int64String, bi("-9223372036854775808"), bi("9223372036854775807"), func(b *big.Int) index.Key { return index.Int64(b.Int64()) }},
	}
	for _, ps := range parsers {
		var cands []*big.Int
		for _, e := range []*big.Int{ps.min, ps.max, bi("0"), bi("80"), bi("65536"), bi("65616"), bi("4294967296"), bi("4294967376"), bi("18446744073709551616"), bi("-1"), bi("-65456"), bi("-4294967216")} {
			for d := int64(-2); d <= 2; d++ {
				cands = append(cands, new(big.Int).Add(e, big.NewInt(d)))
			}
		}
		for i := 0; i < 2000; i++ {
			v := new(big.Int).SetUint64(rng.Uint64() >> uint(rng.IntN(64)))
			if rng.IntN(2) == 0 {
				v.Neg(v)
			}
			if rng.IntN(8) == 0 {
				v.Lsh(v, uint(rng.IntN(8)))
			}
			cands = append(cands, v)
		}
		for _, v := range cands {
			k, err := ps.parse(v.String())
			in := v.Cmp(ps.min) >= 0 && v.Cmp(ps.max) <= 0
			switch {
			case in && (err != nil || !bytes.Equal(k, ps.key(v))):
				fail("parser/"+ps.name, "%s(%q)=(%x,%v), the value's key is %x", ps.name, v.String(), k, err, ps.key(v))
			case !in && err == nil:
				fail("parser-out-of-domain/"+ps.name, "%s(%q) is outside the domain but was accepted with key %x (the key of another value)", ps.name, v.String(), k)
			}
			tick()
		}
	}
	// string keys and the key-set helpers built on them: the key of a string is its bytes (equal strings equal keys, different strings
	// different keys, for any byte values incl. 0x00, 0xff and invalid UTF-8); a helper over a collection yields exactly the keys of
	// its members; the parsers of addresses and prefixes give the key of the parsed value
	{
		keysOf := func(ks index.KeySet) []string {
			var out []string
			ks.Foreach(func(k index.Key) { out = append(out, string(k)) })
			sort.Strings(out)
			return slices.Compact(out)
		}
		strs := []string{"", "\x00", "\x00\x00", "\x01", "a", "a\x00", "a\x00b", "ab", "b", "\xff", "\xff\xfe", "\xc3\x28", "\xed\xa0\x80", "é", "日本", strings.Repeat("x", 300)}
		for i := 0; i < 300; i++ {
			b := make([]byte, rng.IntN(6))
			for j := range b {
				b[j] = []byte{0, 1, 'a', 'b', 0xff, 0xc3}[rng.IntN(6)]
			}
			strs = append(strs, string(b))
		}
		for _, v := range strs {
			k := index.String(v)
			k2, err := index.FromString(v)
			if string(k) != v || err != nil || string(k2) != v || string(index.Stringer(str(v))) != v {
				fail("string", "String(%q)=%x FromString=(%x,%v) Stringer=%x", v, k, k2, err, index.Stringer(str(v)))
			}
			tick()
		}
		for i := 0; i < 400; i++ {
			var ss []string
			var ts []str
			m := map[string]int{}
			for j, n := 0, rng.IntN(6); j < n; j++ {
				v := strs[rng.IntN(len(strs))]
				ss = append(ss, v)
				ts = append(ts, str(v))
				m[v] = j
			}
			want := slices.Clone(ss)
			sort.Strings(want)
			want = slices.Compact(want)
			if want == nil {
				want = []string{}
			}
			for name, got := range map[string][]string{
				"StringSlice":   keysOf(index.StringSlice(ss)),
				"StringerSlice": keysOf(index.StringerSlice(ts)),
				"StringerSeq":   keysOf(index.StringerSeq(slices.Values(ts))),
				"StringerSeq2": keysOf(index.StringerSeq2(func(y func(str, int) bool) {
					for i, v := range ts {
						if !y(v, i) {
							return
						}
					}
				})),
				"Seq": keysOf(index.Seq(index.String, slices.Values(ss))),
				"Seq2": keysOf(index.Seq2(index.String, func(y func(string, int) bool) {
					for i, v := range ss {
						if !y(v, i) {
							return
						}
					}
				})),
				"StringMap": keysOf(index.StringMap(m)),
			} {
				if got == nil {
					got = []string{}
				}
				if !slices.Equal(got, want) {
					fail("keyset/"+name, "%s over %q yields the keys %q, want %q", name, ss, got, want)
				}
			}
			tick()
		}
		for i := 0; i < 3000; i++ {
			var a netip.Addr
			if rng.IntN(2) == 0 {
				var b [4]byte
				binary.BigEndian.PutUint32(b[:], rng.Uint32()>>uint(rng.IntN(32)))
				a = netip.AddrFrom4(b)
			} else {
				var b [16]byte
				binary.BigEndian.PutUint64(b[:8], rng.Uint64()|1<<63)
				binary.BigEndian.PutUint64(b[8:], rng.Uint64()>>uint(rng.IntN(64)))
				a = netip.AddrFrom16(b)
			}
			k := index.NetIPAddr(a)
			if ks, err := index.NetIPAddrString(a.String()); err != nil || !bytes.Equal(ks, k) {
				fail("netipaddr-string", "NetIPAddrString(%q)=(%x,%v), NetIPAddr=%x", a.String(), ks, err, k)
			}
			if kn := index.NetIP(net.IP(a.AsSlice())); !bytes.Equal(kn, k) {
				fail("netip", "NetIP(%v)=%x, NetIPAddr of the same address=%x", a, kn, k)
			}
			p := netip.PrefixFrom(a, rng.IntN(a.BitLen()+1))
			if ks, err := index.NetIPPrefixString(p.String()); err != nil || !bytes.Equal(ks, index.NetIPPrefix(p)) {
				fail("netipprefix-string", "NetIPPrefixString(%q)=(%x,%v), NetIPPrefix=%x", p.String(), ks, err, index.NetIPPrefix(p))
			}
			tick()
		}
		for _, bad := range []string{"", "10.0.0", "10.0.0.1/33", "::1/129", "x", "10.0.0.1/"} {
			if k, err := index.NetIPPrefixString(bad); err == nil {
				fail("netipprefix-string", "NetIPPrefixString(%q) is accepted with key %x", bad, k)
			}
			if bad != "::1/129" && bad != "10.0.0.1/33" {
				if k, err := index.NetIPAddrString(bad); err == nil {
					fail("netipaddr-string", "NetIPAddrString(%q) is accepted with key %x", bad, k)
				}
			}
			tick()
		}
	}
	// index.Set: the keys of a part.Set's elements (fixed-width integer element types): different elements, different keys
	hostile := []int32{math.MinInt32, -65536, -2, -1, 0, 1, 0x7f, 0x80, 0x7ff, 0x800, 0xd7ff, 0xd800, 0xdfff, 0xe000, 0xfffd, 0xffff, 0x10000, 0x10ffff, 0x110000, math.MaxInt32}
	setKeys := func(name string, n int, ks index.KeySet) {
		seen := map[string]bool{}
		ks.Foreach(func(k index.Key) {
			seen[string(k)] = true
		})
		if len(seen) != n {
			fail("set-keys/"+name, "index.Set over a part.Set[%s] of %d elements gives %d distinct keys", name, n, len(seen))
		}
		tick()
	}
	setKeys("int32", len(hostile), index.Set(part.NewSet(hostile...)))
	{
		var rs []rune
		var i64 []int64
		var u32 []uint32
		var is []int
		for _, v := range hostile {
			rs = append(rs, rune(v))
			i64 = append(i64, int64(v)<<20)
			u32 = append(u32, uint32(v))
			is = append(is, int(v)<<31)
		}
		setKeys("rune", len(rs), index.Set(part.NewSet(rs...)))
		setKeys("int64", len(i64), index.Set(part.NewSet(i64...)))
		setKeys("uint32", len(u32), index.Set(part.NewSet(u32...)))
		setKeys("int", len(is), index.Set(part.NewSet(is...)))
		for _, v := range hostile {
			setKeys("int32", 1, index.Set(part.NewSet(v)))
		}
	}
	// decimal strings with leading zeros are the same numbers; prefixed or grouped literals (0x10, 0b11, 0o7, 1_000) are not decimal
	// numbers and must not be given the key of some value
	for _, ps := range parsers {
		for _, c := range []struct {
			s    string
			want int64
			ok   bool
		}{{"010", 10, true}, {"0010", 10, true}, {"08", 8, true}, {"00", 0, true}, {"0x10", 0, false}, {"0X1f", 0, false}, {"0b11", 0, false}, {"0o17", 0, false}, {"1_000", 0, false}, {"1e3", 0, false}, {" 7", 0, false}, {"7 ", 0, false}, {"", 0, false}} {
			k, err := ps.parse(c.s)
			switch {
			case c.ok && (err != nil || !bytes.Equal(k, ps.key(big.NewInt(c.want)))):
				fail("parser-decimal/"+ps.name, "%s(%q)=(%x,%v), the decimal value %d has key %x", ps.name, c.s, k, err, c.want, ps.key(big.NewInt(c.want)))
			case !c.ok && err == nil:
				fail("parser-decimal/"+ps.name, "%s(%q) is not a decimal number but was accepted with key %x", ps.name, c.s, k)
			}
			tick()
		}
	}
	if k, err := index.IntString("010"); err != nil || !bytes.Equal(k, index.Int(10)) {
		fail("parser-decimal/IntString", "IntString(\"010\")=(%x,%v), Int(10)=%x", k, err, index.Int(10))
	}
	if k, err := index.IntString("0x10"); err == nil {
		fail("parser-decimal/IntString", "IntString(\"0x10\") accepted with key %x", k)
	}
	// a key belongs to the caller: appending to one returned key must not change what the encoder returns for any value
	{
		type enc struct {
			name string
			f    func() []index.Key
		}
		encs := []enc{
			{"Bool", func() []index.Key { return []index.Key{index.Bool(false), index.Bool(true)} }},
			{"Uint16", func() []index.Key { return []index.Key{index.Uint16(0), index.Uint16(1), index.Uint16(0xffff)} }},
			{"Uint32", func() []index.Key { return []index.Key{index.Uint32(0), index.Uint32(1)} }},
			{"Uint64", func() []index.Key { return []index.Key{index.Uint64(0), index.Uint64(1)} }},
			{"Int", func() []index.Key { return []index.Key{index.Int(0), index.Int(-1)} }},
			{"String", func() []index.Key { return []index.Key{index.String("a"), index.String("b")} }},
			{"NetIPAddr", func() []index.Key {
				return []index.Key{index.NetIPAddr(netip.MustParseAddr("10.0.0.1")), index.NetIPAddr(netip.MustParseAddr("::1"))}
			}},
		}
		for _, e := range encs {
			before := e.f()
			var want [][]byte
			for _, k := range before {
				want = append(want, bytes.Clone(k))
			}
			for _, k := range before {
				for _, extra := range [][]byte{{'x'}, {0}, {'F'}, {'T', 'T'}} {
					_ = append(k, extra...)
				}
			}
			after := e.f()
			for i := range after {
				if !bytes.Equal(after[i], want[i]) {
					fail("key-aliasing/"+e.name, "after appending to keys returned earlier, %s encodes its value #%d as %x (before: %x)", e.name, i, after[i], want[i])
				}
			}
			tick()
		}
	}
	for _, c := range []struct {
		s    string
		want bool
	}{{"true", true}, {"false", false}, {"1", true}, {"0", false}} {
		if k, err := index.BoolString(c.s); err != nil || !bytes.Equal(k, index.Bool(c.want)) {
			fail("parser/BoolString", "BoolString(%q)=(%x,%v)", c.s, k, err)
		}
	}
	if _, err := index.BoolString("maybe"); err == nil {
		fail("parser-out-of-domain/BoolString", "BoolString(\"maybe\") accepted")
	}
	r.Sample(map[string]any{"uint16": "all 65536", "uint64_values": len(u64), "uint32_values": len(u32), "netip": 20000, "parsers": len(parsers)})
	r.Finish()
}

func TestVerif_LPMKeys(t *testing.T) {
	r := vkit.Start(t, "C18", "lpmkeys", "exploration", rule)
	r.Require("keys")
	rng := r.Rand(2)
	n := 0
	check := func(data []byte, plen int) {
		n++
		r.Case(uint64(n), true)
		r.Count("keys", 1)
		k := lpm.EncodeLPMKey(data, lpm.PrefixLen(plen))
		d2, l2 := lpm.DecodeLPMKey(k)
		want := bytes.Clone(data[:(plen+7)/8])
		if rem := plen % 8; rem != 0 {
			want[len(want)-1] &= 0xff << (8 - rem)
		}
		if int(l2) != plen || !bytes.Equal(d2, want) {
			r.Violation("lpmkey/roundtrip", n, map[string]any{"message": fmt.Sprintf("EncodeLPMKey(%x,%d)=%x decodes to (%x,%d) want (%x,%d)", data, plen, k, d2, l2, want, plen)})
		}
		// equal masked values give equal keys
		noisy := bytes.Clone(data)
		for i := plen; i < len(noisy)*8; i++ {
			if rng.IntN(2) == 0 {
				noisy[i/8] ^= 1 << (7 - uint(i%8))
			}
		}
		if !bytes.Equal(lpm.EncodeLPMKey(noisy, lpm.PrefixLen(plen)), k) {
			r.Violation("lpmkey/mask", n, map[string]any{"message": fmt.Sprintf("bits beyond the prefix length change the key: %x vs %x /%d", data, noisy, plen)})
		}
		// the argument belongs to the caller: windows into a packed buffer (exact length, longer than needed, with and
		// without spare capacity) give the same key and leave the buffer as it was; the key does not change when the
		// buffer is edited or the neighbouring window is encoded afterwards
		nb := (plen + 7) / 8
		packed := make([]byte, 0, 2*len(data)+8)
		packed = append(packed, data[:nb]...)
		packed = append(packed, 0xa5, 0x5a, 0xa5, 0x5a)
		packed = append(packed, data...)
		packed = append(packed, 0xc3, 0x3c, 0xc3, 0x3c)
		before := bytes.Clone(packed)
		k1 := lpm.EncodeLPMKey(packed[:nb], lpm.PrefixLen(plen))
		k1c := bytes.Clone(k1)
		k2 := lpm.EncodeLPMKey(packed[nb+4:nb+4+len(data)], lpm.PrefixLen(plen))
		if !bytes.Equal(packed, before) {
			r.Violation("lpmkey/argument-overwritten", n, map[string]any{"message": fmt.Sprintf("EncodeLPMKey on a window of a larger buffer (data %x /%d) changed the caller's buffer: %x -> %x", data, plen, before, packed)})
		}
		if !bytes.Equal(k1c, k) || !bytes.Equal(k2, k) || !bytes.Equal(k1, k) {
			r.Violation("lpmkey/window", n, map[string]any{"message": fmt.Sprintf("EncodeLPMKey(%x,%d): exact-length window gives %x (now %x), full window %x, own slice %x", data, plen, k1c, k1, k2, k)})
		}
		for i := range packed {
			packed[i] ^= 0xff
		}
		if !bytes.Equal(k1, k) || !bytes.Equal(k2, k) {
			r.Violation("lpmkey/aliases-argument", n, map[string]any{"message": fmt.Sprintf("the key returned by EncodeLPMKey(%x,%d) changes when the caller edits its buffer afterwards", data, plen)})
		}
	}
	words := vkit.N(1024, 4096)
	for plen := 0; plen <= 32; plen++ {
		for w := 0; w < words; w++ {
			var d [4]byte
			v := rng.Uint32()
			if w < 64 {
				v = uint32(w) << 26 // all values of the top 6 bits
			}
			binary.BigEndian.PutUint32(d[:], v)
			check(d[:], plen)
		}
	}
	for i := 0; i < vkit.N(20000, 200000); i++ {
		var d [16]byte
		binary.BigEndian.PutUint64(d[:8], rng.Uint64())
		binary.BigEndian.PutUint64(d[8:], rng.Uint64())
		check(d[:], rng.IntN(129))
	}
	// netip prefixes
	for i := 0; i < 5000; i++ {
		var b [4]byte
		binary.BigEndian.PutUint32(b[:], rng.Uint32())
		p := netip.PrefixFrom(netip.AddrFrom4(b), rng.IntN(33))
		k := lpm.NetIPPrefixToIndexKey(p)
		if !bytes.Equal(k, lpm.NetIPPrefixToIndexKey(p.Masked())) {
			r.Violation("lpmkey/netip-mask", i, map[string]any{"message": fmt.Sprintf("NetIPPrefixToIndexKey(%v) != of masked prefix", p)})
		}
		d, l := lpm.DecodeLPMKey(k)
		if int(l) != p.Bits()+96 || len(d) != (int(l)+7)/8 {
			r.Violation("lpmkey/netip-len", i, map[string]any{"message": fmt.Sprintf("NetIPPrefixToIndexKey(%v) -> len %d", p, l)})
		}
		// the 4-byte form of the same prefix: the IPv4 address masked to the prefix length, no offset
		k4 := lpm.NetIPPrefix4ToIndexKey(p)
		d4, l4 := lpm.DecodeLPMKey(k4)
		m4 := p.Masked().Addr().As4()
		if int(l4) != p.Bits() || !bytes.Equal(d4, m4[:(p.Bits()+7)/8]) {
			r.Violation("lpmkey/netip4-roundtrip", i, map[string]any{"message": fmt.Sprintf("NetIPPrefix4ToIndexKey(%v)=%x decodes to (%x,%d), want (%x,%d)", p, k4, d4, l4, m4[:(p.Bits()+7)/8], p.Bits())})
		}
		if !bytes.Equal(k4, lpm.NetIPPrefix4ToIndexKey(p.Masked())) || !bytes.Equal(k4, lpm.EncodeLPMKey(m4[:], lpm.PrefixLen(p.Bits()))) {
			r.Violation("lpmkey/netip4-mask", i, map[string]any{"message": fmt.Sprintf("NetIPPrefix4ToIndexKey(%v)=%x differs from the key of the masked prefix %x", p, k4, lpm.NetIPPrefix4ToIndexKey(p.Masked()))})
		}
		n++
		r.Case(uint64(n), true)
		r.Count("keys", 1)
	}
	// IPv6 and IPv4-mapped IPv6 prefixes: the key is the 16-byte address masked to the prefix length, no offset
	for i := 0; i < 5000; i++ {
		var b [16]byte
		binary.BigEndian.PutUint64(b[:8], rng.Uint64()>>uint(rng.IntN(64)))
		binary.BigEndian.PutUint64(b[8:], rng.Uint64())
		if rng.IntN(3) == 0 {
			b = [16]byte{0, 0, 0, 0, 0, 0, 0, 0, 0, 0, 0xff, 0xff, byte(rng.IntN(256)), byte(rng.IntN(256)), 0, byte(rng.IntN(2))} // ::ffff:a.b.c.d
		}
		bits := rng.IntN(129)
		p := netip.PrefixFrom(netip.AddrFrom16(b), bits)
		var k []byte
		func() {
			defer func() {
				if x := recover(); x != nil {
					r.Violation("lpmkey/netip6-panic", i, map[string]any{"message": fmt.Sprintf("NetIPPrefixToIndexKey(%v) panics: %v", p, x)})
				}
			}()
			k = lpm.NetIPPrefixToIndexKey(p)
		}()
		if k != nil {
			d, l := lpm.DecodeLPMKey(k)
			m := p.Masked().Addr().As16()
			if int(l) != bits || !bytes.Equal(d, m[:(bits+7)/8]) {
				r.Violation("lpmkey/netip6-roundtrip", i, map[string]any{"message": fmt.Sprintf("NetIPPrefixToIndexKey(%v) decodes to (%x,%d), want (%x,%d)", p, d, l, m[:(bits+7)/8], bits)})
			}
		}
		n++
		r.Case(uint64(n), true)
		r.Count("keys", 1)
	}
	r.Sample(map[string]any{"32bit": fmt.Sprintf("prefix lengths 0..32 x %d data words", words), "128bit_samples": vkit.N(20000, 200000), "example": fmt.Sprintf("%x", lpm.EncodeLPMKey([]byte{0xff, 0xff}, 9))})
	r.Finish()
}
