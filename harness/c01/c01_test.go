package c01

import (
	"fmt"
	"sync"
	"testing"
	"time"

	"github.com/cilium/statedb"

	"verifharness/dbsim"
	"verifharness/hookctl"
	"verifharness/vkit"
)

const rule = "random histories under virtual time with the DB started: multi-operation write transactions (key-changing updates, deletes, aborts) on tables with unique, non-unique, multi-key and LPM indexes, " +
	"open change iterators and graveyard collection; up to 16 retained snapshots (taken between transactions, while a write transaction is pending, and from Commit's return value) plus retained result sequences " +
	"are re-queried after every transaction and after collection windows: the transcript of a fixed probe battery must equal the one recorded at creation and the model of that snapshot; " +
	"non-trivial = a retained snapshot was re-queried after a later commit; distinct = hash of the operation log"

var opts = dbsim.Opts{Tables: 2, Txns: 40, MaxOps: 8, ProbesPerIndex: 4, AbortPct: 20, Iterators: true, Retain: 16, Initializers: true,
	// (a write transaction is also a snapshot of the tables it does not hold: what Next(wtxn) delivers belongs to it)
	Report: map[string]bool{"frozen": true, "changes/uncommitted-update": true, "changes/uncommitted-delete": true}}

func TestVerif_Snapshots(t *testing.T) {
	r := vkit.Start(t, "C01", "snapshots", "exploration", rule)
	r.Require("frozen_rechecks", "commits", "aborts")
	ctl := hookctl.Install(vkit.Seed())
	defer ctl.Uninstall()
	var monitors sync.Map
	ctl.OnPoint(func(point, handle string) {
		if f, ok := monitors.Load(handle); ok {
			f.(func(string, string))(point, handle)
		}
	})
	o := opts
	o.OnSim = func(s *dbsim.Sim) func() {
		monitors.Store(s.Handle, s.RegistrationMonitor(ctl)) // table registrations run into some of the commits
		return func() { monitors.Delete(s.Handle) }
	}
	dbsim.BubbleCases(t, r, vkit.N(1200, 60000), o, func(s *dbsim.Sim) bool { return s.FrozenChecks() > 0 && s.Commits() > 1 })
	r.Finish()
}

// LPM-heavy variant: several objects per prefix, updates of the 2nd/3rd object (the shape that shares memory).
func TestVerif_SnapshotsLPM(t *testing.T) {
	r := vkit.Start(t, "C01", "snapshots-lpm", "exploration", rule)
	r.Require("frozen_rechecks", "commits")
	o := opts
	o.SchemaPick = []int{1, 3}
	o.Tables = 1
	dbsim.BubbleCases(t, r, vkit.N(600, 30000), o, func(s *dbsim.Sim) bool { return s.FrozenChecks() > 0 && s.Commits() > 1 })
	r.Finish()
}

// Concurrent readers under the race detector: one writer runs a random history (all index kinds, aborts) while 6 readers
// take snapshots, reconstruct the contents from the primary index, run the full battery against it (every index must agree
// with the snapshot's own contents) and keep re-querying up to 4 retained snapshots each: the transcript must never change.
func TestVerifRace_Readers(t *testing.T) {
	r := vkit.Start(t, "C01", "readers-race", "exploration", "one writer history (schemas with part and LPM indexes, 20% aborts) with 6 concurrent snapshot readers under the race detector; "+
		"every reader re-queries its retained snapshots (transcript of a fixed probe battery must equal the one taken at creation) while the writer commits; "+
		"non-trivial = a retained snapshot was re-queried after a later commit; distinct = (history, reader) pairs")
	r.Require("frozen_rechecks_concurrent", "commits")
	n := vkit.N(30, 600)
	r.ParallelCases(n, 2, func(i int) {
		o := dbsim.Opts{Tables: 2, Txns: 60, MaxOps: 8, ProbesPerIndex: 1, AbortPct: 20, SchemaPick: []int{1, 3, 0}, Initializers: true, Report: map[string]bool{}}
		s := dbsim.NewSim(r, i, o)
		tabs := s.Tables()
		stop := make(chan struct{})
		var wg sync.WaitGroup
		// tables are registered while readers take snapshots and the writer has transactions open: the set of tables of a
		// snapshot is part of what must be frozen
		wg.Add(1)
		go func() {
			defer wg.Done()
			for k := 0; k < 400; k++ {
				select {
				case <-stop:
					return
				default:
				}
				statedb.NewTable(s.DB, fmt.Sprintf("reg%dx%d", i%1000, k), dbsim.IDIndex)
				r.Count("tables_registered_concurrently", 1)
				time.Sleep(time.Duration(50+k%7*40) * time.Microsecond)
			}
		}()
		for rd := 0; rd < 6; rd++ {
			wg.Add(1)
			go func(rd int) {
				defer wg.Done()
				rng := r.Rand(i, uint64(rd)+100)
				type snap struct {
					txn        statedb.ReadTxn
					models     []*dbsim.TableModel
					probes     [][]dbsim.Probe
					transcript []uint64
					rev        []uint64
					ntables    int
				}
				var snaps []*snap
				rechecks := 0
				for {
					select {
					case <-stop:
						r.Count("frozen_rechecks_concurrent", int64(rechecks))
						r.Case(uint64(i)<<8|uint64(rd), rechecks > 0)
						return
					default:
					}
					sn := &snap{txn: s.DB.ReadTxn()}
					sn.ntables = len(s.DB.GetTables(sn.txn))
					for _, ti := range tabs {
						m := dbsim.ModelFromSnapshot(sn.txn, ti.Table)
						probes := ti.GenProbes(rng, m, 3)
						msg, c, tr := dbsim.Battery(sn.txn, ti.Table, m, probes, false)
						if msg != "" {
							r.Violation("concurrent-snapshot/"+c, i, map[string]any{"message": "snapshot taken while a writer runs: indexes disagree with the snapshot's own contents: " + msg})
							return
						}
						sn.models, sn.probes, sn.transcript = append(sn.models, m), append(sn.probes, probes), append(sn.transcript, tr)
					}
					if len(snaps) < 4 {
						snaps = append(snaps, sn)
					} else {
						snaps[rng.IntN(4)] = sn
					}
					for _, old := range snaps {
						if n := len(s.DB.GetTables(old.txn)); n != old.ntables {
							r.Violation("frozen-concurrent/table-set", i, map[string]any{"message": fmt.Sprintf("one and the same ReadTxn listed %d tables when taken and %d tables later (tables are being registered concurrently)", old.ntables, n)})
							return
						}
						for ti, info := range tabs {
							msg, c, tr := dbsim.Battery(old.txn, info.Table, old.models[ti], old.probes[ti], false)
							rechecks++
							if msg != "" || tr != old.transcript[ti] {
								r.Violation("frozen-concurrent/"+c, i, map[string]any{"message": "retained snapshot re-queried while the writer runs: " + msg + " (transcript changed)"})
								return
							}
						}
					}
				}
			}(rd)
		}
		func() {
			defer s.Recover()
			for x := 0; x < o.Txns && !s.Failed; x++ {
				s.RunTxn(x)
			}
		}()
		close(stop)
		wg.Wait()
		s.Finish(s.Commits() > 1)
	})
	r.Finish()
}
