package c01

import (
	"testing"

	"verifharness/dbsim"
	"verifharness/vkit"
)

const rule = "random histories under virtual time with the DB started: multi-operation write transactions (key-changing updates, deletes, aborts) on tables with unique, non-unique, multi-key and LPM indexes, " +
	"open change iterators and graveyard collection; up to 16 retained snapshots (taken between transactions, while a write transaction is pending, and from Commit's return value) plus retained result sequences " +
	"are re-queried after every transaction and after collection windows: the transcript of a fixed probe battery must equal the one recorded at creation and the model of that snapshot; " +
	"non-trivial = a retained snapshot was re-queried after a later commit; distinct = hash of the operation log"

var opts = dbsim.Opts{Tables: 2, Txns: 40, MaxOps: 8, ProbesPerIndex: 4, AbortPct: 20, Iterators: true, Retain: 16,
	Report: map[string]bool{"frozen": true}}

func TestVerif_Snapshots(t *testing.T) {
	r := vkit.Start(t, "C01", "snapshots", "exploration", rule)
	r.Require("frozen_rechecks", "commits", "aborts")
	dbsim.BubbleCases(t, r, vkit.N(1200, 60000), opts, func(s *dbsim.Sim) bool { return s.FrozenChecks() > 0 && s.Commits() > 1 })
	r.Finish()
}

// LPM-heavy variant: several objects per prefix, updates of the 2nd/3rd object (the shape that shares memory).
func TestVerif_SnapshotsLPM(t *testing.T) {
	r := vkit.Start(t, "C01", "snapshots-lpm", "exploration", rule)
	r.Require("frozen_rechecks", "commits")
	o := opts
	o.SchemaPick = []int{1, 3}
	o.Tables = 1
	dbsim.BubbleCases(t, r, vkit.N(600, 30000), o, func(s *dbsim.Sim) bool { return s.FrozenChecks() > 0 && s.Commits() > 1 })
	r.Finish()
}
