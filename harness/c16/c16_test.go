package c16

import (
	"sync"
	"testing"
	"time"

	"verifharness/recsim"
	"verifharness/vkit"
)

const rule = "reconciler runs under virtual time with the attempt log (virtual timestamps): in all runs a retry never starts sooner than RetryBackoffMin after the failed attempt it follows and WaitUntilReconciled(rev) never returns nil " +
	"while a change <= rev that is still current was never attempted; in pacing runs (instantaneous operations, unlimited limiter, no injected writes, so waits are exact) consecutive failures of an unchanged object wait non-decreasing times " +
	"capped by RetryBackoffMax (+ round slack), the first wait after a change or success is the fresh first-failure wait, and at quiescent points the reported retry low-watermark equals 0 iff no failed object awaits retry, " +
	"otherwise the revision argument of the oldest pending failed attempt; non-trivial = at least 3 operation attempts; distinct = hash of the event log"

func run(t *testing.T, r *vkit.Run, n int, pacing bool) {
	report := map[string]bool{"pacing": true}
	if part, idx, ok := vkit.ReplayCase(); ok {
		if part == r.Part {
			cfg := recsim.RandomConfig(r.Rand(idx, 99), pacing)
			cfg.Report = report
			recsim.Run(t, r, idx, cfg)
		}
		return
	}
	var wg sync.WaitGroup
	next := make(chan int)
	for w := 0; w < vkit.Workers(); w++ {
		wg.Add(1)
		go func() {
			defer wg.Done()
			for i := range next {
				cfg := recsim.RandomConfig(r.Rand(i, 99), pacing)
				cfg.Report = report
				r.LogCase(i)
				recsim.Run(t, r, i, cfg)
			}
		}()
	}
	for i := 0; i < n; i++ {
		next <- i
	}
	close(next)
	wg.Wait()
}

func TestVerif_Pacing(t *testing.T) {
	r := vkit.Start(t, "C16", "pacing", "exploration", rule)
	r.Assume("waits are measured from the end of the failed attempt to the start of the retry in virtual time", "the watermark model uses the revision argument passed to the failed attempt")
	r.Require("operation_attempts", "failed_attempts", "retry_waits_checked", "watermark_comparisons")
	run(t, r, vkit.N(5000, 100000), true)
	r.Finish()
}

func TestVerif_General(t *testing.T) {
	r := vkit.Start(t, "C16", "general", "exploration", rule)
	r.Require("operation_attempts", "failed_attempts", "retry_waits_checked")
	run(t, r, vkit.N(3000, 60000), false)
	r.Finish()
}

// Long failure streaks with large backoffs (the exponent grows with every consecutive failure): one object whose Update fails 25-45 times
// in a row under minimum backoffs of 100 ms, 10 s or 1 h and maxima of 1 h or 24 h (virtual time), then succeeds.
func TestVerif_Streak(t *testing.T) {
	r := vkit.Start(t, "C16", "streak", "exploration", rule+" (variant: a single object failing 25-45 times in a row, minimum backoff 100 ms / 10 s / 1 h, maximum 1 h / 24 h)")
	r.Require("operation_attempts", "retry_waits_checked")
	n := vkit.N(60, 1500)
	var wg sync.WaitGroup
	next := make(chan int)
	one := func(i int) {
		rng := r.Rand(i, 99)
		cfg := recsim.RandomConfig(rng, true)
		cfg.Phases, cfg.Keys = 0, 1
		cfg.Streak = 25 + rng.IntN(21)
		cfg.BackoffMin = []time.Duration{100 * time.Millisecond, 10 * time.Second, time.Hour}[rng.IntN(3)]
		cfg.BackoffMax = []time.Duration{time.Hour, 24 * time.Hour}[rng.IntN(2)]
		cfg.Report = map[string]bool{"pacing": true}
		r.LogCase(i)
		recsim.Run(t, r, i, cfg)
	}
	if part, idx, ok := vkit.ReplayCase(); ok {
		if part == r.Part {
			one(idx)
		}
		r.Finish()
		return
	}
	for w := 0; w < vkit.Workers(); w++ {
		wg.Add(1)
		go func() {
			defer wg.Done()
			for i := range next {
				one(i)
			}
		}()
	}
	for i := 0; i < n; i++ {
		next <- i
	}
	close(next)
	wg.Wait()
	r.Finish()
}

// Slow writers and rounds forced into the commit window (see C15 lock-held-window; one run at a time because the hook gate is
// process-wide): refreshing on, user transactions holding the table lock across virtual time, and for a quarter of the main
// goroutine's commits a reconciler round (external prune trigger) started between the commit's root store and its notifications
// while a waiter for that commit's revision is already waiting.
func TestVerif_LockHeldWindow(t *testing.T) {
	r := vkit.Start(t, "C16", "lock-held-window", "exploration", rule+" (variant: refreshing always on, slow user transactions holding the table lock, reconciler rounds forced between root store and notification of a commit whose revision is being waited for)")
	r.Require("operation_attempts", "user_transactions_holding_the_lock", "rounds_forced_into_the_commit_window")
	n := vkit.N(400, 15000)
	for i := 0; i < n; i++ {
		if part, idx, ok := vkit.ReplayCase(); ok && !(part == r.Part && idx == i) {
			continue
		}
		cfg := recsim.RandomConfig(r.Rand(i, 99), false)
		cfg.Refresh, cfg.HoldLock = true, true
		cfg.Report = map[string]bool{"pacing": true}
		r.LogCase(i)
		recsim.Run(t, r, i, cfg)
	}
	r.Finish()
}
