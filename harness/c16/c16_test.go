package c16

import (
	"sync"
	"testing"

	"verifharness/recsim"
	"verifharness/vkit"
)

const rule = "reconciler runs under virtual time with the attempt log (virtual timestamps): in all runs a retry never starts sooner than RetryBackoffMin after the failed attempt it follows and WaitUntilReconciled(rev) never returns nil " +
	"while a change <= rev that is still current was never attempted; in pacing runs (instantaneous operations, unlimited limiter, no injected writes, so waits are exact) consecutive failures of an unchanged object wait non-decreasing times " +
	"capped by RetryBackoffMax (+ round slack), the first wait after a change or success is the fresh first-failure wait, and at quiescent points the reported retry low-watermark equals 0 iff no failed object awaits retry, " +
	"otherwise the revision argument of the oldest pending failed attempt; non-trivial = at least 3 operation attempts; distinct = hash of the event log"

func run(t *testing.T, r *vkit.Run, n int, pacing bool) {
	report := map[string]bool{"pacing": true}
	if part, idx, ok := vkit.ReplayCase(); ok {
		if part == r.Part {
			cfg := recsim.RandomConfig(r.Rand(idx, 99), pacing)
			cfg.Report = report
			recsim.Run(t, r, idx, cfg)
		}
		return
	}
	var wg sync.WaitGroup
	next := make(chan int)
	for w := 0; w < vkit.Workers(); w++ {
		wg.Add(1)
		go func() {
			defer wg.Done()
			for i := range next {
				cfg := recsim.RandomConfig(r.Rand(i, 99), pacing)
				cfg.Report = report
				r.LogCase(i)
				recsim.Run(t, r, i, cfg)
			}
		}()
	}
	for i := 0; i < n; i++ {
		next <- i
	}
	close(next)
	wg.Wait()
}

func TestVerif_Pacing(t *testing.T) {
	r := vkit.Start(t, "C16", "pacing", "exploration", rule)
	r.Assume("waits are measured from the end of the failed attempt to the start of the retry in virtual time", "the watermark model uses the revision argument passed to the failed attempt")
	r.Require("operation_attempts", "failed_attempts", "retry_waits_checked", "watermark_comparisons")
	run(t, r, vkit.N(5000, 100000), true)
	r.Finish()
}

func TestVerif_General(t *testing.T) {
	r := vkit.Start(t, "C16", "general", "exploration", rule)
	r.Require("operation_attempts", "failed_attempts", "retry_waits_checked")
	run(t, r, vkit.N(3000, 60000), false)
	r.Finish()
}
