// Package hookctl controls the build-tag guarded hook points of cilium/statedb: deterministic
// pause/probe/resume at a named point of a named transaction (probe mode), random delays between
// critical sections (stress mode), and online monitors (lock order, table holders, interleaving signatures).
package hookctl

import (
	"fmt"
	"math/rand/v2"
	"runtime"
	"sort"
	"strconv"
	"strings"
	"sync"
	"sync/atomic"
	"time"
	"verifharness/vkit"

	"github.com/cilium/statedb"
)

// Pause is an armed pause point.
type Pause struct {
	c       *Ctl
	handle  string
	point   string
	reached chan struct{}
	resume  chan struct{}
	once    sync.Once
	done    atomic.Bool
}

// Event is a recorded hook call.
type Event struct {
	Seq    int64
	Handle string
	Point  string
}

// Ctl is the hook controller. Only one may be installed at a time (the hooks are process-global).
type Ctl struct {
	mu      sync.Mutex
	pauses  map[string]*Pause // handle|point
	at      map[string]string // handle -> last point reached
	counts  map[string]int64  // point -> calls
	sigs    map[string]struct{}
	events  []Event
	record  bool
	seq     atomic.Int64
	stress  atomic.Bool
	seed    uint64
	onPoint func(point, handle string) // optional extra monitor, called outside the mutex

	// lock-order monitor (per goroutine)
	lockMu     sync.Mutex
	lastSeq    map[uint64]uint64 // goid -> last sequence number acquired in the current Lock() call
	lockCalls  int64
	lockAcqs   int64
	violations []string

	// table-holder monitor
	holdMu sync.Mutex
	holder map[string]string   // table -> handle
	holds  map[string][]string // handle -> tables
	holdOK int64
}

// Install creates a controller and installs the hooks.
func Install(seed uint64) *Ctl {
	c := &Ctl{pauses: map[string]*Pause{}, at: map[string]string{}, counts: map[string]int64{}, sigs: map[string]struct{}{},
		lastSeq: map[uint64]uint64{}, holder: map[string]string{}, holds: map[string][]string{}, seed: seed}
	statedb.SetVerifHook(c.hook)
	statedb.SetVerifLockHook(c.lockHook)
	return c
}

// Uninstall removes the hooks and releases every pause.
func (c *Ctl) Uninstall() {
	statedb.SetVerifHook(nil)
	statedb.SetVerifLockHook(nil)
	c.mu.Lock()
	for _, p := range c.pauses {
		p.once.Do(func() { close(p.resume) })
	}
	c.pauses = map[string]*Pause{}
	c.mu.Unlock()
}

// SetStress switches random delay injection on or off.
func (c *Ctl) SetStress(on bool) { c.stress.Store(on) }

// Record switches event recording on or off.
func (c *Ctl) Record(on bool) {
	c.mu.Lock()
	c.record = on
	if !on {
		c.events = nil
	}
	c.mu.Unlock()
}

// OnPoint installs an extra monitor called at every hook point.
func (c *Ctl) OnPoint(fn func(point, handle string)) { c.onPoint = fn }

// Events returns a copy of the recorded events.
func (c *Ctl) Events() []Event {
	c.mu.Lock()
	defer c.mu.Unlock()
	return append([]Event(nil), c.events...)
}

// PauseAt arms a pause: the next time the transaction of the given DB handle reaches the point it blocks until Resume.
func (c *Ctl) PauseAt(handle, point string) *Pause {
	p := &Pause{c: c, handle: handle, point: point, reached: make(chan struct{}), resume: make(chan struct{})}
	c.mu.Lock()
	c.pauses[handle+"|"+point] = p
	c.mu.Unlock()
	return p
}

// WaitPaused waits until the pause point has been reached.
func (p *Pause) WaitPaused(d time.Duration) bool {
	select {
	case <-p.reached:
		return true
	case <-time.After(vkit.Patient(d)):
		return false
	}
}

// Reached reports whether the point has been reached.
func (p *Pause) Reached() bool {
	select {
	case <-p.reached:
		return true
	default:
		return false
	}
}

// Resume releases the paused transaction (or disarms the pause if it was not reached yet).
func (p *Pause) Resume() {
	p.c.mu.Lock()
	if p.c.pauses[p.handle+"|"+p.point] == p {
		delete(p.c.pauses, p.handle+"|"+p.point)
	}
	p.c.mu.Unlock()
	p.once.Do(func() { close(p.resume) })
}

// At returns the last point reached by the handle.
func (c *Ctl) At(handle string) string {
	c.mu.Lock()
	defer c.mu.Unlock()
	return c.at[handle]
}

// Snapshot returns handle -> last point for all handles seen.
func (c *Ctl) Snapshot() map[string]string {
	c.mu.Lock()
	defer c.mu.Unlock()
	m := make(map[string]string, len(c.at))
	for k, v := range c.at {
		m[k] = v
	}
	return m
}

// Counts returns point -> number of calls.
func (c *Ctl) Counts() map[string]int64 {
	c.mu.Lock()
	defer c.mu.Unlock()
	m := make(map[string]int64, len(c.counts))
	for k, v := range c.counts {
		m[k] = v
	}
	return m
}

// Signatures returns the number of distinct interleaving signatures (point x multiset of the other workers' points) seen.
func (c *Ctl) Signatures() int {
	c.mu.Lock()
	defer c.mu.Unlock()
	return len(c.sigs)
}

var terminal = map[string]bool{"commit.afterInitNotify": true, "abort.afterUnlock": true, "gc.roundDone": true, "register.locked": true}

func (c *Ctl) hook(point, handle string) {
	c.mu.Lock()
	c.counts[point]++
	if terminal[point] {
		delete(c.at, handle)
	} else {
		c.at[handle] = point
	}
	if c.stress.Load() || c.record {
		// interleaving signature: this point x sorted multiset of the points of the other transactions in flight
		others := make([]string, 0, len(c.at))
		for h, p := range c.at {
			if h != handle {
				others = append(others, p)
			}
		}
		sort.Strings(others)
		if len(c.sigs) < 200000 {
			c.sigs[point+"<"+strings.Join(others, ",")] = struct{}{}
		}
	}
	if c.record && len(c.events) < 100000 {
		c.events = append(c.events, Event{c.seq.Add(1), handle, point})
	}
	p := c.pauses[handle+"|"+point]
	if p != nil {
		delete(c.pauses, handle+"|"+point)
	}
	c.mu.Unlock()

	// table-holder monitor: a transaction's tables are released for the monitor when its writes are published
	if point == "commit.afterRootStore" || point == "abort.beforeUnlock" {
		c.release(handle)
	}
	if fn := c.onPoint; fn != nil {
		fn(point, handle)
	}
	if p != nil {
		close(p.reached)
		<-p.resume
		return
	}
	if c.stress.Load() && point != "commit.rootLocked" && point != "register.locked" {
		// delays only between critical sections, where the code can really be preempted
		r := rand.Uint32() // per-thread fast source; the *choice* of delays need not be replayable, outcomes are checked by oracles
		switch r % 8 {
		case 0, 1:
			runtime.Gosched()
		case 2:
			time.Sleep(time.Duration(1+(r>>8)%200) * time.Microsecond)
		}
	}
}

func goid() uint64 {
	var buf [64]byte
	n := runtime.Stack(buf[:], false)
	// "goroutine 123 ["
	s := string(buf[len("goroutine "):n])
	if i := strings.IndexByte(s, ' '); i > 0 {
		id, _ := strconv.ParseUint(s[:i], 10, 64)
		return id
	}
	return 0
}

// lockHook is the lock-order monitor (lockdep style): within one SortableMutexes.Lock the sequence numbers
// must be strictly increasing; together with all-at-once acquisition this is the classical sufficient
// condition for deadlock freedom, so an ordering or de-duplication bug is caught on every execution.
func (c *Ctl) lockHook(phase string, seq uint64) {
	switch phase {
	case "acquire":
		g := goid()
		c.lockMu.Lock()
		last, in := c.lastSeq[g]
		if in && seq <= last {
			c.violations = append(c.violations, fmt.Sprintf("lock order: goroutine %d acquires table lock #%d after #%d within one WriteTxn", g, seq, last))
		}
		c.lastSeq[g] = seq
		c.lockAcqs++
		c.lockMu.Unlock()
	case "done":
		g := goid()
		c.lockMu.Lock()
		delete(c.lastSeq, g)
		c.lockCalls++
		c.lockMu.Unlock()
	}
}

// LockStats returns (Lock calls, individual acquisitions) seen by the lock-order monitor.
func (c *Ctl) LockStats() (int64, int64) {
	c.lockMu.Lock()
	defer c.lockMu.Unlock()
	return c.lockCalls, c.lockAcqs
}

// Hold is called by the workload right after WriteTxn returned for the handle: the handle now holds the tables.
// It reports a violation if another transaction still holds one of them.
func (c *Ctl) Hold(handle string, tables []string) {
	c.holdMu.Lock()
	for _, t := range tables {
		if h := c.holder[t]; h != "" && h != handle {
			c.lockMu.Lock()
			c.violations = append(c.violations, fmt.Sprintf("two holders: WriteTxn of %s returned for table %s while %s still holds it (at %s)", handle, t, h, c.At(h)))
			c.lockMu.Unlock()
		}
		c.holder[t] = handle
	}
	c.holds[handle] = tables
	c.holdOK++
	c.holdMu.Unlock()
}

func (c *Ctl) release(handle string) {
	c.holdMu.Lock()
	for _, t := range c.holds[handle] {
		if c.holder[t] == handle {
			delete(c.holder, t)
		}
	}
	delete(c.holds, handle)
	c.holdMu.Unlock()
}

// HoldChecks returns how many Hold calls were checked.
func (c *Ctl) HoldChecks() int64 {
	c.holdMu.Lock()
	defer c.holdMu.Unlock()
	return c.holdOK
}

// Violations returns the monitor violations so far.
func (c *Ctl) Violations() []string {
	c.lockMu.Lock()
	defer c.lockMu.Unlock()
	return append([]string(nil), c.violations...)
}
