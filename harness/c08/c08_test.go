package c08

import (
	"sync"
	"testing"

	"verifharness/concw"
	"verifharness/dbsim"
	"verifharness/hookctl"
	"verifharness/vkit"
)

const rule = "random histories under virtual time with the collector running every 1 ms: deletes, re-inserts, re-deletes, up to 4 change iterators per table with arbitrary consumption progress, closes; " +
	"the collector is paused at the hook point between its lock-free scan and its write transaction (fault enumeration of that window) while 1-3 further steps change the table, create/close iterators or let iterators consume; " +
	"oracles: the C07 change-stream oracle for every lagging iterator (a deletion collected too early shows as a missing deletion), bounded drain (after every open iterator has drained the latest snapshot, or all are closed, " +
	"the retained count reported by the DB is 0 within 3 collection intervals), nothing retained while no iterator is open, retained objects never in queries or object counts; " +
	"non-trivial = at least one drain check with deletions in the history; distinct = hash of the operation log"

func TestVerif_Histories(t *testing.T) {
	r := vkit.Start(t, "C08", "histories", "fault_enumeration", rule)
	r.Assume("bounded liveness: 3 x the collection interval of virtual time plus quiescence (the collector is triggered by marks/closes and rate-limited to one round per interval)",
		"the retained count is observed through Metrics.GraveyardObjectCount reported by an empty write transaction")
	r.Require("gc_checks", "gc_paused_at_afterScan", "change_stream_checks")
	ctl := hookctl.Install(vkit.Seed())
	defer ctl.Uninstall()
	var monitors sync.Map
	ctl.OnPoint(func(point, handle string) {
		if f, ok := monitors.Load(handle); ok {
			f.(func(string, string))(point, handle)
		}
	})
	onSim := func(s *dbsim.Sim) func() {
		monitors.Store(s.Handle, s.RegistrationMonitor(ctl))
		return func() { monitors.Delete(s.Handle) }
	}
	o := dbsim.Opts{OnSim: onSim, Tables: 2, Txns: 50, MaxOps: 6, ProbesPerIndex: 1, AbortPct: 15, Iterators: true, Retain: 2, Quiesce: true, ForceGC: true, Ctl: ctl,
		SchemaPick: []int{0, 2, 2}, Report: map[string]bool{"gc": true, "changes": true, "query": true}}
	dbsim.BubbleCases(t, r, vkit.N(1000, 40000), o, func(s *dbsim.Sim) bool { return s.GCChecks() > 0 })
	for p, c := range ctl.Counts() {
		if len(p) > 3 && p[:3] == "gc." {
			r.Count("hook:"+p, c)
		}
	}
	r.Finish()
}

// Lagging consumers in real time under the race detector: the collector (every 1 ms) must keep every deletion until the slowest
// open iterator has been handed it.
func TestVerifRace_LaggingConsumers(t *testing.T) {
	r := vkit.Start(t, "C08", "lagging-consumers-race", "fault_enumeration", "as C07 consumers-race but consumers sleep up to 3 ms between Next calls and consume partially, so the collector runs many rounds between the deletion and its delivery; "+
		"oracle: replay == snapshot after every drain (a deletion collected too early is a stale object in the replay); non-trivial = changes were delivered; distinct = (seed, case)")
	r.Require("changes_delivered", "drain_checks")
	r.ParallelCases(vkit.N(12, 300), 2, func(i int) { concw.RunConsumers(r, i, true) })
	r.Finish()
}
