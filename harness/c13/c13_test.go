package c13

import (
	"bytes"
	"fmt"
	"math/rand/v2"
	"sort"
	"strings"
	"testing"

	"github.com/cilium/statedb/index"
	"github.com/cilium/statedb/lpm"

	"verifharness/vkit"
)

const rule = "random histories of lpm.Trie transactions (insert/delete of prefixes of length 0..W for W in {16,32,128}, bytes biased so prefixes nest and diverge " +
	"inside compressed paths; Reuse/Clear, abandoned transactions, side branches, iterators taken inside transactions) checked against a map keyed by bit string; " +
	"non-trivial = a retained trie or iterator was re-verified after a later mutation; distinct = hash of the operation log"

type entry struct {
	K string // bit string
	V uint64
}

type retTrie struct {
	name  string
	trie  lpm.Trie[uint64]
	model map[string]uint64
}

type retIter struct {
	name string
	it   *lpm.Iterator[uint64]
	rest []entry
}

type sim struct {
	r   *vkit.Run
	idx int
	rng *rand.Rand
	W   int // key width in bits

	cur      lpm.Trie[uint64]
	curModel map[string]uint64
	prevTxn  *lpm.Txn[uint64]
	nextVal  uint64

	tries []*retTrie
	iters []*retIter

	fp      *vkit.Hash64
	log     []string
	rechk   int
	failed  bool
	queries int
}

func (s *sim) logf(f string, a ...any) {
	s.log = append(s.log, fmt.Sprintf(f, a...))
	s.fp.Str(s.log[len(s.log)-1])
}

func (s *sim) violate(key, f string, a ...any) {
	if s.failed {
		return
	}
	s.failed = true
	tail := s.log
	if len(tail) > 300 {
		tail = tail[len(tail)-300:]
	}
	s.r.Violation(key, s.idx, map[string]any{"message": fmt.Sprintf(f, a...), "width": s.W, "history": tail})
}

// bits <-> key
func bitsOf(data []byte, n int) string {
	var b strings.Builder
	for i := 0; i < n; i++ {
		if data[i/8]>>(7-uint(i%8))&1 == 1 {
			b.WriteByte('1')
		} else {
			b.WriteByte('0')
		}
	}
	return b.String()
}

func (s *sim) keyOfBits(bs string) index.Key {
	data := make([]byte, s.W/8)
	for i := 0; i < len(bs); i++ {
		if bs[i] == '1' {
			data[i/8] |= 1 << (7 - uint(i%8))
		}
	}
	// put garbage beyond the prefix: the encoder must mask it
	if s.rng.IntN(3) == 0 {
		for i := len(bs); i < s.W; i++ {
			if s.rng.IntN(2) == 0 {
				data[i/8] |= 1 << (7 - uint(i%8))
			}
		}
	}
	return lpm.EncodeLPMKey(data, lpm.PrefixLen(len(bs)))
}

func bitsOfKey(k []byte) string {
	data, n := lpm.DecodeLPMKey(k)
	return bitsOf(data, int(n))
}

func (s *sim) genBits() string {
	if len(s.curModel) > 0 && s.rng.IntN(100) < 60 {
		keys := sortedEntries(s.curModel)
		k := keys[s.rng.IntN(len(keys))].K
		switch s.rng.IntN(5) {
		case 0:
			return k
		case 1:
			return k[:s.rng.IntN(len(k)+1)]
		case 2: // extend
			n := 1 + s.rng.IntN(9)
			for i := 0; i < n && len(k) < s.W; i++ {
				k += string("01"[s.rng.IntN(2)])
			}
			return k
		case 3: // flip one bit and maybe cut after it
			if len(k) == 0 {
				return k
			}
			i := s.rng.IntN(len(k))
			b := []byte(k)
			b[i] ^= 1
			if s.rng.IntN(2) == 0 {
				return string(b[:i+1])
			}
			return string(b)
		default: // full-length extension
			for len(k) < s.W {
				k += string("01"[s.rng.IntN(2)])
			}
			return k
		}
	}
	// byte-biased random
	data := make([]byte, s.W/8)
	for i := range data {
		switch s.rng.IntN(6) {
		case 0:
			data[i] = 0x00
		case 1:
			data[i] = 0x80
		case 2:
			data[i] = 0xc0
		case 3:
			data[i] = 0xff
		default:
			data[i] = byte(s.rng.IntN(256))
		}
	}
	var n int
	switch s.rng.IntN(6) {
	case 0:
		n = 0
	case 1:
		n = s.W
	case 2:
		n = 8 * s.rng.IntN(s.W/8+1)
	case 3:
		n = min(s.W, 8*s.rng.IntN(s.W/8+1)+1)
	case 4:
		n = max(0, 8*s.rng.IntN(s.W/8+1)-1)
	default:
		n = s.rng.IntN(s.W + 1)
	}
	if s.W == 128 && s.rng.IntN(2) == 0 {
		n = min(n, 24) // keep 128-bit tries dense near the top too
	}
	return bitsOf(data, n)
}

func sortedEntries(m map[string]uint64) []entry {
	out := make([]entry, 0, len(m))
	for k, v := range m {
		out = append(out, entry{k, v})
	}
	sort.Slice(out, func(i, j int) bool { return out[i].K < out[j].K })
	return out
}

func cloneModel(m map[string]uint64) map[string]uint64 {
	c := make(map[string]uint64, len(m))
	for k, v := range m {
		c[k] = v
	}
	return c
}

func (s *sim) collect(what string, it *lpm.Iterator[uint64]) []entry {
	var out []entry
	it.All(func(k []byte, v uint64) bool {
		bs := bitsOfKey(k)
		// the returned key must be the canonical (masked) encoding
		if !bytes.Equal(k, func() []byte {
			data := make([]byte, (len(bs)+7)/8)
			for i := 0; i < len(bs); i++ {
				if bs[i] == '1' {
					data[i/8] |= 1 << (7 - uint(i%8))
				}
			}
			return lpm.EncodeLPMKey(data, lpm.PrefixLen(len(bs)))
		}()) {
			s.violate("key-not-canonical", "%s: iterator returned non-canonical key %x", what, k)
		}
		out = append(out, entry{bs, v})
		return true
	})
	return out
}

func eq(a, b []entry) bool {
	if len(a) != len(b) {
		return false
	}
	for i := range a {
		if a[i] != b[i] {
			return false
		}
	}
	return true
}

func show(es []entry) string {
	var b strings.Builder
	for i, e := range es {
		if i > 30 {
			b.WriteString(" ...")
			break
		}
		fmt.Fprintf(&b, " %s=%d", e.K, e.V)
	}
	return b.String()
}

type reader interface {
	Len() int
	All() *lpm.Iterator[uint64]
	Prefix(index.Key) *lpm.Iterator[uint64]
	LowerBound(index.Key) *lpm.Iterator[uint64]
	Lookup(index.Key) (uint64, bool)
	LookupExact(index.Key) (uint64, bool)
}

func expectPrefix(all []entry, q string) []entry {
	var out []entry
	for _, e := range all {
		if strings.HasPrefix(e.K, q) {
			out = append(out, e)
		}
	}
	return out
}

func expectLower(all []entry, q string) []entry {
	i := sort.Search(len(all), func(i int) bool { return all[i].K >= q })
	return append([]entry(nil), all[i:]...)
}

func expectLookup(m map[string]uint64, k string) (string, uint64, bool) {
	for n := len(k); n >= 0; n-- {
		if v, ok := m[k[:n]]; ok {
			return k[:n], v, true
		}
	}
	return "", 0, false
}

func (s *sim) verify(what string, rd reader, m map[string]uint64, probes int, retainFrom bool) {
	all := sortedEntries(m)
	if rd.Len() != len(all) {
		s.violate("len", "%s: Len()=%d want %d", what, rd.Len(), len(all))
		return
	}
	if got := s.collect(what, rd.All()); !eq(got, all) {
		s.violate("all", "%s: All: got [%s] want [%s]", what, show(got), show(all))
		return
	}
	for i := 0; i < probes && !s.failed; i++ {
		q := s.genBits()
		s.queries++
		qk := s.keyOfBits(q)
		v, ok := rd.LookupExact(qk)
		mv, mok := m[q]
		if ok != mok || ok && v != mv {
			s.violate("lookupexact", "%s: LookupExact(%s)=(%d,%v) want (%d,%v)", what, q, v, ok, mv, mok)
			return
		}
		if mok { // a stored prefix always looks itself up
			if v, ok := rd.Lookup(qk); !ok || v != mv {
				s.violate("lookup-stored", "%s: Lookup(stored %s)=(%d,%v) want (%d,true)", what, q, v, ok, mv)
				return
			}
		}
		// full-length key: longest covering prefix
		full := q
		for len(full) < s.W {
			full += string("01"[s.rng.IntN(2)])
		}
		v, ok = rd.Lookup(s.keyOfBits(full))
		wp, wv, wok := expectLookup(m, full)
		if ok != wok || ok && v != wv {
			s.violate("lookup-full", "%s: Lookup(%s)=(%d,%v) want (%d,%v) from %q", what, full, v, ok, wv, wok, wp)
			return
		}
		pit := rd.Prefix(qk)
		want := expectPrefix(all, q)
		if got := s.collect(what, pit); !eq(got, want) {
			s.violate("prefix", "%s: Prefix(%s): got [%s] want [%s]", what, q, show(got), show(want))
			return
		}
		if retainFrom && s.rng.IntN(4) == 0 {
			s.retainIter(fmt.Sprintf("%s prefix %s", what, q), pit, want)
		}
		lit := rd.LowerBound(qk)
		want = expectLower(all, q)
		if got := s.collect(what, lit); !eq(got, want) {
			s.violate("lowerbound", "%s: LowerBound(%s): got [%s] want [%s]", what, q, show(got), show(want))
			return
		}
		if retainFrom && s.rng.IntN(4) == 0 {
			s.retainIter(fmt.Sprintf("%s lowerbound %s", what, q), lit, want)
		}
	}
	if retainFrom && s.rng.IntN(3) == 0 {
		s.retainIter(what+" all", rd.All(), all)
	}
}

func (s *sim) retainIter(name string, it *lpm.Iterator[uint64], rest []entry) {
	r := &retIter{name, it, rest}
	if len(s.iters) < 10 {
		s.iters = append(s.iters, r)
	} else {
		s.iters[s.rng.IntN(len(s.iters))] = r
	}
}

func (s *sim) retainTrie(name string, t lpm.Trie[uint64], m map[string]uint64) {
	r := &retTrie{name, t, cloneModel(m)}
	if len(s.tries) < 10 {
		s.tries = append(s.tries, r)
	} else {
		s.tries[s.rng.IntN(len(s.tries))] = r
	}
}

func (s *sim) verifyRetained(changed bool) {
	for _, t := range s.tries {
		s.verify("retained "+t.name, &t.trie, t.model, 1, false)
		if changed {
			s.rechk++
		}
	}
	for _, it := range s.iters {
		if got := s.collect(it.name, it.it); !eq(got, it.rest) {
			s.violate("persistence/iterator", "retained iterator %s: got [%s] want [%s]", it.name, show(got), show(it.rest))
		}
		if changed {
			s.rechk++
		}
		if it.it != nil && s.rng.IntN(4) == 0 {
			k, v, ok := it.it.Next()
			if len(it.rest) == 0 {
				if ok {
					s.violate("persistence/iterator-next", "retained iterator %s: Next() ok when exhausted", it.name)
				}
			} else {
				if !ok || bitsOfKey(k) != it.rest[0].K || v != it.rest[0].V {
					s.violate("persistence/iterator-next", "retained iterator %s: Next()=(%x,%d,%v) want %s=%d", it.name, k, v, ok, it.rest[0].K, it.rest[0].V)
				}
				it.rest = it.rest[1:]
			}
		}
	}
}

// comb inserts a comb-shaped set of prefixes: a deep chain 0^d with a right sibling 0^i 1 at every level, so that LowerBound
// iterators carry a pending stack as deep as the trie.
func (s *sim) comb(what string, txn *lpm.Txn[uint64], tm map[string]uint64) {
	depth := min(s.W-1, 20+s.rng.IntN(50))
	s.logf("%s comb depth=%d", what, depth)
	zeros := ""
	for i := 0; i < depth; i++ {
		right := zeros + "1"
		if s.rng.IntN(3) == 0 && len(right) < s.W { // give some siblings children
			s.nextVal++
			k := right + "0"
			txn.Insert(s.keyOfBits(k), s.nextVal)
			tm[k] = s.nextVal
			s.nextVal++
			k = right + "1"
			txn.Insert(s.keyOfBits(k), s.nextVal)
			tm[k] = s.nextVal
		}
		s.nextVal++
		txn.Insert(s.keyOfBits(right), s.nextVal)
		tm[right] = s.nextVal
		zeros += "0"
	}
	s.nextVal++
	txn.Insert(s.keyOfBits(zeros), s.nextVal)
	tm[zeros] = s.nextVal
	// iterators from the bottom of the comb
	all := sortedEntries(tm)
	for _, q := range []string{zeros, zeros[:len(zeros)/2], ""} {
		it := txn.LowerBound(s.keyOfBits(q))
		want := expectLower(all, q)
		if got := s.collect(what, it); !eq(got, want) {
			s.violate("lowerbound", "%s: LowerBound(%s) on the comb: got [%s] want [%s]", what, q, show(got), show(want))
			return
		}
		if got := s.collect(what, it); !eq(got, want) {
			s.violate("persistence/iterator", "%s: second iteration of the LowerBound(%s) iterator on the comb differs: got [%s] want [%s]", what, q, show(got), show(want))
			return
		}
		s.retainIter(fmt.Sprintf("%s comb lowerbound %s", what, q), it, want)
	}
}

func (s *sim) body(what string, txn *lpm.Txn[uint64], tm map[string]uint64, nops int) (changed bool) {
	if s.W >= 32 && s.rng.IntN(12) == 0 {
		s.comb(what, txn, tm)
		changed = true
	}
	for i := 0; i < nops && !s.failed; i++ {
		switch x := s.rng.IntN(100); {
		case x < 50:
			q := s.genBits()
			s.nextVal++
			s.logf("%s insert %s=%d", what, q, s.nextVal)
			if err := txn.Insert(s.keyOfBits(q), s.nextVal); err != nil {
				s.violate("insert-error", "%s: Insert(%s) error %v", what, q, err)
			}
			tm[q] = s.nextVal
			changed = true
		case x < 80:
			q := s.genBits()
			s.logf("%s delete %s", what, q)
			v, ok := txn.Delete(s.keyOfBits(q))
			mv, mok := tm[q]
			if ok != mok || ok && v != mv {
				s.violate("delete-return", "%s: Delete(%s)=(%d,%v) want (%d,%v)", what, q, v, ok, mv, mok)
			}
			if mok {
				delete(tm, q)
				changed = true
			}
		case x < 88:
			// a single iterator taken straight after writes, with no other query in between (every query freezes the trie by
			// itself; a query that relied on an earlier one to do so would show here), consumed only after later writes
			q := s.genBits()
			if s.rng.IntN(4) == 0 {
				q = q[:s.rng.IntN(len(q)+1)]
			}
			all := sortedEntries(tm)
			switch s.rng.IntN(3) {
			case 0:
				s.logf("%s retain bare prefix %s", what, q)
				s.retainIter(fmt.Sprintf("%s bare prefix %s", what, q), txn.Prefix(s.keyOfBits(q)), expectPrefix(all, q))
			case 1:
				s.logf("%s retain bare lowerbound %s", what, q)
				s.retainIter(fmt.Sprintf("%s bare lowerbound %s", what, q), txn.LowerBound(s.keyOfBits(q)), expectLower(all, q))
			default:
				s.logf("%s retain bare all", what)
				s.retainIter(what+" bare all", txn.All(), all)
			}
		default:
			s.logf("%s verify", what)
			s.verify(what, txn, tm, 1, true)
		}
		if txn.Len() != len(tm) {
			s.violate("len", "%s: txn.Len()=%d want %d", what, txn.Len(), len(tm))
		}
	}
	return
}

func runHistory(r *vkit.Run, idx int) {
	s := &sim{r: r, idx: idx, rng: r.Rand(idx), fp: vkit.NewHash()}
	s.W = []int{16, 32, 128}[s.rng.IntN(3)]
	s.cur = lpm.New[uint64]()
	s.curModel = map[string]uint64{}
	s.logf("W=%d", s.W)
	defer func() {
		if p := recover(); p != nil {
			s.failed = false
			s.violate("panic/"+fmt.Sprint(p)[:min(50, len(fmt.Sprint(p)))], "panic: %v", p)
		}
	}()
	ntx := 25
	for t := 0; t < ntx && !s.failed; t++ {
		what := fmt.Sprintf("t%d", t)
		if len(s.tries) > 0 && s.rng.IntN(8) == 0 {
			// side branch from a retained version
			v := s.tries[s.rng.IntN(len(s.tries))]
			what += " side(" + v.name + ")"
			txn := v.trie.Txn()
			tm := cloneModel(v.model)
			ch := s.body(what, txn, tm, s.rng.IntN(12))
			if s.rng.IntN(3) > 0 {
				nt := txn.Commit()
				s.logf("%s commit", what)
				s.verify(what+" result", &nt, tm, 2, true)
				s.retainTrie(what, nt, tm)
			} else {
				s.logf("%s abandon", what)
			}
			s.verifyRetained(ch)
			continue
		}
		var txn *lpm.Txn[uint64]
		if s.prevTxn != nil && s.rng.IntN(2) == 0 {
			txn = s.prevTxn.Reuse(s.cur)
			s.logf("%s reuse", what)
		} else {
			txn = s.cur.Txn()
		}
		tm := cloneModel(s.curModel)
		ch := s.body(what, txn, tm, s.rng.IntN(20))
		if s.failed {
			break
		}
		if s.rng.IntN(5) == 0 {
			s.logf("%s abandon", what)
			if s.rng.IntN(2) == 0 {
				s.prevTxn = txn // like the LPM index: an aborted transaction object is reused without Clear
			}
			s.verify("cur after abandon", &s.cur, s.curModel, 2, false)
			s.verifyRetained(false)
			continue
		}
		s.logf("%s commit", what)
		s.cur = txn.Commit()
		s.curModel = tm
		if s.rng.IntN(2) == 0 {
			txn.Clear()
			if s.rng.IntN(3) == 0 && !s.failed {
				// a cleared transaction is an empty one: used as it is (no Reuse) it builds a trie of its own
				em := map[string]uint64{}
				s.logf("%s cleared transaction used directly", what)
				s.verify(what+" cleared", txn, em, 1, false)
				s.body(what+" cleared", txn, em, s.rng.IntN(8))
				if !s.failed {
					side := txn.Commit()
					s.verify(what+" cleared result", &side, em, 2, true)
					s.retainTrie(what+" cleared", side, em)
				}
				txn.Clear()
			}
			s.prevTxn = txn
		}
		s.verify("cur "+what, &s.cur, s.curModel, 4, true)
		if s.rng.IntN(2) == 0 {
			s.retainTrie("v"+what, s.cur, s.curModel)
		}
		s.verifyRetained(ch)
	}
	r.Case(s.fp.Sum(), s.rechk > 0)
	r.Count("persistence_rechecks", int64(s.rechk))
	r.Count("query_probes", int64(s.queries))
	r.Count("ops", int64(len(s.log)))
	if r.WantSample() {
		tail := s.log
		if len(tail) > 50 {
			tail = tail[:50]
		}
		r.Sample(map[string]any{"case": idx, "first_ops": tail, "total_ops": len(s.log)})
	}
}

func run(t *testing.T, part string, n int) {
	r := vkit.Start(t, "C13", part, "exploration", rule)
	r.Assume("Lookup is only asked with full-length keys and with stored prefixes (the domain the statement defines)",
		"a transaction object is not used after Commit except through Clear/Reuse")
	r.Require("persistence_rechecks", "query_probes")
	r.ParallelCases(n, vkit.Workers(), func(i int) { runHistory(r, i) })
	r.Finish()
}

func TestVerif_Model(t *testing.T)     { run(t, "model", vkit.N(8000, 300000)) }
func TestVerifRace_Model(t *testing.T) { run(t, "model-race", vkit.N(300, 5000)) }
