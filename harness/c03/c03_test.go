package c03

import (
	"testing"

	"verifharness/dbsim"
	"verifharness/vkit"
)

const rule = "random histories of write transactions (Insert, InsertWatch, Modify with merge, Delete, DeleteAll, CompareAndSwap/CompareAndDelete with current/stale/foreign/future guards, " +
	"writes on tables the transaction does not hold, operations through finished handles; commits and aborts) whose return values (old object, hadOld, error kind) and later reads are compared with a map model; " +
	"non-trivial = at least 5 return values compared and at least one commit; distinct = hash of the operation log"

func run(t *testing.T, part string, n int) {
	r := vkit.Start(t, "C03", part, "exploration", rule)
	r.Assume("guard revisions are >= 1 (0 is the API's internal 'no guard' value)", "the same pointer is never re-inserted", "DeleteAll through a finished handle is not exercised (the statement excludes it)")
	r.Require("return_value_checks", "commits", "aborts")
	r.ParallelCases(n, vkit.Workers(), func(i int) {
		dbsim.RunPlain(r, i, dbsim.Opts{Tables: 3, Txns: 16, MaxOps: 12, ProbesPerIndex: 2, AbortPct: 25, Initializers: true,
			Report: map[string]bool{"ret": true, "query": true, "abort": true}},
			func(s *dbsim.Sim) bool { return s.RetChecks() >= 5 && s.Commits() > 0 })
	})
	r.Finish()
}

func TestVerif_Ops(t *testing.T) { run(t, "ops", vkit.N(3000, 150000)) }

// Long and deeply nested keys (radix tree depth up to 60, stems of 255-700 bytes).
func TestVerif_OpsDeep(t *testing.T) {
	r := vkit.Start(t, "C03", "ops-deep", "exploration", rule)
	r.Require("return_value_checks", "commits")
	r.ParallelCases(vkit.N(300, 15000), vkit.Workers(), func(i int) {
		dbsim.RunPlain(r, i, dbsim.Opts{Tables: 1, Txns: 25, MaxOps: 10, ProbesPerIndex: 1, AbortPct: 15, SchemaPick: []int{5},
			Report: map[string]bool{"ret": true, "query": true, "abort": true}},
			func(s *dbsim.Sim) bool { return s.RetChecks() >= 5 && s.Commits() > 0 })
	})
	r.Finish()
}

// Wide fan-out keys (see C04 battery-wide): return values of writes whose radix nodes are promoted/demoted.
func TestVerif_OpsWide(t *testing.T) {
	r := vkit.Start(t, "C03", "ops-wide", "exploration", rule)
	r.Require("return_value_checks", "commits")
	r.ParallelCases(vkit.N(500, 25000), vkit.Workers(), func(i int) {
		dbsim.RunPlain(r, i, dbsim.Opts{Tables: 1, Txns: 45, MaxOps: 24, ProbesPerIndex: 1, AbortPct: 15, SchemaPick: []int{4},
			Report: map[string]bool{"ret": true, "query": true, "abort": true}},
			func(s *dbsim.Sim) bool { return s.RetChecks() >= 5 && s.Commits() > 0 })
	})
	r.Finish()
}

// The same operations while change iterators come and go (started DB in a synctest bubble, collector every 1 ms of virtual time):
// Insert and Delete then also maintain the graveyard, and a re-insert meets dead objects left by closed iterators.
func TestVerif_OpsIterators(t *testing.T) {
	r := vkit.Start(t, "C03", "ops-iterators", "exploration", rule+" (variant: change iterators are created, read and closed between and inside the transactions, directed delete / close-last-iterator / re-insert / new-iterator / delete sequences included)")
	r.Require("return_value_checks", "commits")
	dbsim.BubbleCases(t, r, vkit.N(800, 40000), dbsim.Opts{Tables: 2, Txns: 60, MaxOps: 6, ProbesPerIndex: 1, AbortPct: 20, Iterators: true, Retain: 2,
		// a rejected operation changes nothing - not the record of an earlier deletion either, which only a change iterator shows
		Report: map[string]bool{"ret": true, "query": true, "abort": true, "panic": true, "changes/deletion-not-delivered": true, "changes/replay-differs": true}},
		func(s *dbsim.Sim) bool { return s.RetChecks() >= 5 && s.Commits() > 0 })
	r.Finish()
}

func TestVerifRace_Ops(t *testing.T) { run(t, "ops-race", vkit.N(200, 4000)) }
