package c14

import (
	"sync"
	"testing"

	"verifharness/recsim"
	"verifharness/vkit"
)

const rule = "the reconciler (hive job group) runs inside a testing/synctest bubble against a simulated target: 2-5 phases of user inserts/updates/deletes/delete+re-insert/status-only writes with unique payloads, " +
	"per-call operation failures (0/20/50/80 %), writes injected from inside Update/Delete and in the metrics callback between the operation and the status commit, operation durations 0/1/30 ms; " +
	"configurations: single/batch operations, round size 1/2/3/1000, limiter none/10 ms, four backoff settings, refresh and pruning on/off; then failures and changes stop and after the bound " +
	"(2 x RetryBackoffMax + one round per object + 1 s of virtual time) the target must equal the table, every live object be Done and the last operation per key be a successful Update (live) or Delete (removed); " +
	"non-trivial = at least 3 operation attempts; distinct = hash of the event log"

func run(t *testing.T, r *vkit.Run, n int, report map[string]bool, pacing bool) {
	if part, idx, ok := vkit.ReplayCase(); ok {
		if part == r.Part {
			cfg := recsim.RandomConfig(r.Rand(idx, 99), pacing)
			cfg.Report = report
			recsim.Run(t, r, idx, cfg)
		}
		return
	}
	var wg sync.WaitGroup
	next := make(chan int)
	for w := 0; w < vkit.Workers(); w++ {
		wg.Add(1)
		go func() {
			defer wg.Done()
			for i := range next {
				cfg := recsim.RandomConfig(r.Rand(i, 99), pacing)
				cfg.Report = report
				r.LogCase(i)
				recsim.Run(t, r, i, cfg)
			}
		}()
	}
	for i := 0; i < n; i++ {
		next <- i
	}
	close(next)
	wg.Wait()
}

func TestVerif_Convergence(t *testing.T) {
	r := vkit.Start(t, "C14", "convergence", "exploration", rule)
	r.Assume("bounded liveness in virtual time: 2 x RetryBackoffMax + (objects+5) x (limiter interval + 35 ms) + 1 s after failures and changes stop", "the reconciler is driven through hive's job group inside a synctest bubble; real-timer behaviour is out of scope")
	r.Require("operation_attempts", "failed_attempts", "convergence_checks", "user_writes")
	run(t, r, vkit.N(6000, 120000), map[string]bool{"conv": true}, false)
	r.Finish()
}

// Slow writers: user transactions that keep the table locked across virtual time while the reconciler and its refresher wait
// (see C15 lock-held-window; one run at a time because the hook gate is process-wide). Whatever they decided before they got the
// lock must not keep the table from converging - nor keep the lock.
func TestVerif_LockHeldWindow(t *testing.T) {
	r := vkit.Start(t, "C14", "lock-held-window", "exploration", rule+" (variant: refreshing always on, a third of the user transactions of the main goroutine hold the table lock for 1-400 ms of virtual time)")
	r.Require("operation_attempts", "user_transactions_holding_the_lock", "convergence_checks")
	n := vkit.N(400, 15000)
	for i := 0; i < n; i++ {
		if part, idx, ok := vkit.ReplayCase(); ok && !(part == r.Part && idx == i) {
			continue
		}
		cfg := recsim.RandomConfig(r.Rand(i, 99), false)
		cfg.Refresh, cfg.HoldLock = true, true
		cfg.Report = map[string]bool{"conv": true}
		r.LogCase(i)
		recsim.Run(t, r, i, cfg)
	}
	r.Finish()
}
