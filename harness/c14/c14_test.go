package c14

import (
	"sync"
	"testing"

	"verifharness/recsim"
	"verifharness/vkit"
)

const rule = "the reconciler (hive job group) runs inside a testing/synctest bubble against a simulated target: 2-5 phases of user inserts/updates/deletes/delete+re-insert/status-only writes with unique payloads, " +
	"per-call operation failures (0/20/50/80 %), writes injected from inside Update/Delete and in the metrics callback between the operation and the status commit, operation durations 0/1/30 ms; " +
	"configurations: single/batch operations, round size 1/2/3/1000, limiter none/10 ms, four backoff settings, refresh and pruning on/off; then failures and changes stop and after the bound " +
	"(2 x RetryBackoffMax + one round per object + 1 s of virtual time) the target must equal the table, every live object be Done and the last operation per key be a successful Update (live) or Delete (removed); " +
	"non-trivial = at least 3 operation attempts; distinct = hash of the event log"

func run(t *testing.T, r *vkit.Run, n int, report map[string]bool, pacing bool) {
	if part, idx, ok := vkit.ReplayCase(); ok {
		if part == r.Part {
			cfg := recsim.RandomConfig(r.Rand(idx, 99), pacing)
			cfg.Report = report
			recsim.Run(t, r, idx, cfg)
		}
		return
	}
	var wg sync.WaitGroup
	next := make(chan int)
	for w := 0; w < vkit.Workers(); w++ {
		wg.Add(1)
		go func() {
			defer wg.Done()
			for i := range next {
				cfg := recsim.RandomConfig(r.Rand(i, 99), pacing)
				cfg.Report = report
				r.LogCase(i)
				recsim.Run(t, r, i, cfg)
			}
		}()
	}
	for i := 0; i < n; i++ {
		next <- i
	}
	close(next)
	wg.Wait()
}

func TestVerif_Convergence(t *testing.T) {
	r := vkit.Start(t, "C14", "convergence", "exploration", rule)
	r.Assume("bounded liveness in virtual time: 2 x RetryBackoffMax + (objects+5) x (limiter interval + 35 ms) + 1 s after failures and changes stop", "the reconciler is driven through hive's job group inside a synctest bubble; real-timer behaviour is out of scope")
	r.Require("operation_attempts", "failed_attempts", "convergence_checks", "user_writes")
	run(t, r, vkit.N(6000, 120000), map[string]bool{"conv": true}, false)
	r.Finish()
}
