package c09

import (
	"testing"

	"verifharness/dbsim"
	"verifharness/vkit"
)

const rule = "random histories (as C03) in which the model learns each assigned revision from Revision(wtxn) right after the write and asserts: strictly greater than every earlier revision of the table, " +
	"unchanged by no-op deletes / rejected compare-and-* / writes on tables not held / aborts / tracker and collector commits, equal on every snapshot to the revision of the latest committed write, " +
	"reported with the object, live objects pairwise distinct and ByRevision ascending; non-trivial = at least 5 revision verdicts; distinct = hash of the operation log"

func TestVerif_Sequential(t *testing.T) {
	r := vkit.Start(t, "C09", "sequential", "exploration", rule)
	r.Require("revision_checks", "commits", "aborts")
	r.ParallelCases(vkit.N(3000, 150000), vkit.Workers(), func(i int) {
		dbsim.RunPlain(r, i, dbsim.Opts{Tables: 3, Txns: 16, MaxOps: 12, ProbesPerIndex: 1, AbortPct: 25,
			Report: map[string]bool{"rev": true}},
			func(s *dbsim.Sim) bool { return s.RevChecks() >= 5 })
	})
	r.Finish()
}

// With change iterators, Close and graveyard collection commits in the history (virtual time).
func TestVerif_WithCollector(t *testing.T) {
	r := vkit.Start(t, "C09", "with-collector", "exploration", rule)
	r.Require("revision_checks", "commits")
	n := vkit.N(600, 30000)
	if part, idx, ok := vkit.ReplayCase(); ok {
		if part == "with-collector" {
			n = 0
			dbsim.RunBubble(t, r, idx, opts, func(s *dbsim.Sim) bool { return s.RevChecks() >= 5 })
		}
	}
	for i := 0; i < n; i++ {
		r.LogCase(i)
		dbsim.RunBubble(t, r, i, opts, func(s *dbsim.Sim) bool { return s.RevChecks() >= 5 })
	}
	r.Finish()
}

var opts = dbsim.Opts{Tables: 2, Txns: 30, MaxOps: 8, ProbesPerIndex: 1, AbortPct: 20, Iterators: true, Retain: 4,
	Report: map[string]bool{"rev": true}}
