package c09

import (
	"fmt"
	"sync"
	"sync/atomic"
	"testing"
	"time"

	"github.com/cilium/statedb"

	"verifharness/concw"
	"verifharness/hookctl"

	"verifharness/dbsim"
	"verifharness/vkit"
)

const rule = "random histories (as C03) in which the model learns each assigned revision from Revision(wtxn) right after the write and asserts: strictly greater than every earlier revision of the table, " +
	"unchanged by no-op deletes / rejected compare-and-* / writes on tables not held / aborts / tracker and collector commits, equal on every snapshot to the revision of the latest committed write, " +
	"reported with the object, live objects pairwise distinct and ByRevision ascending; non-trivial = at least 5 revision verdicts; distinct = hash of the operation log"

func TestVerif_Sequential(t *testing.T) {
	r := vkit.Start(t, "C09", "sequential", "exploration", rule)
	r.Require("revision_checks", "commits", "aborts")
	r.ParallelCases(vkit.N(3000, 150000), vkit.Workers(), func(i int) {
		dbsim.RunPlain(r, i, dbsim.Opts{Tables: 3, Txns: 16, MaxOps: 12, ProbesPerIndex: 1, AbortPct: 25, Remote: i%4 == 0,
			Report: map[string]bool{"rev": true}},
			func(s *dbsim.Sim) bool { return s.RevChecks() >= 5 })
	})
	r.Finish()
}

// With change iterators, Close and graveyard collection commits in the history (virtual time).
func TestVerif_WithCollector(t *testing.T) {
	r := vkit.Start(t, "C09", "with-collector", "exploration", rule)
	r.Require("revision_checks", "commits")
	n := vkit.N(600, 30000)
	if part, idx, ok := vkit.ReplayCase(); ok {
		if part == "with-collector" {
			n = 0
			dbsim.RunBubble(t, r, idx, opts, func(s *dbsim.Sim) bool { return s.RevChecks() >= 5 })
		}
	}
	for i := 0; i < n; i++ {
		r.LogCase(i)
		dbsim.RunBubble(t, r, i, opts, func(s *dbsim.Sim) bool { return s.RevChecks() >= 5 })
	}
	r.Finish()
}

var opts = dbsim.Opts{Tables: 2, Txns: 30, MaxOps: 8, ProbesPerIndex: 1, AbortPct: 20, Iterators: true, Retain: 4,
	Report: map[string]bool{"rev": true}}

// Concurrent sampler under the race detector: one writer per table records the revision of each of its commits; samplers take
// snapshots continuously and assert, per table, that the revision never decreases from one snapshot to the next, is constant
// within a snapshot, and is one of the revisions its writer has published (the latest one or a later one); meanwhile other
// goroutines commit to other tables, create and close change iterators (tracker commits) and the collector runs every millisecond.
func TestVerifRace_Sampler(t *testing.T) {
	r := vkit.Start(t, "C09", "sampler-race", "exploration", "3 tables, one writer each (inserts/deletes/rejected compare-and-swaps/aborts), 3 samplers, iterator create/Next/close churn, a goroutine registering up to 400 further tables and the collector at 1 ms, delays injected at the hook points; "+
		"per table the revision must be constant within a snapshot, non-decreasing across successive snapshots and never below the last revision its writer committed before the snapshot was taken; non-trivial = samples were compared; distinct = (seed, run)")
	r.Require("samples", "commits_recorded")
	ctl := hookctl.Install(vkit.Seed())
	defer ctl.Uninstall()
	ctl.SetStress(true)
	n := vkit.N(10, 200)
	r.ParallelCases(n, 2, func(idx int) {
		rng := r.Rand(idx)
		_ = rng
		db := statedb.New()
		db.VerifSetGCInterval(time.Millisecond)
		db.Start()
		defer db.Stop()
		tabs := concw.NewTables(db, "r", 3)
		var committed [3]atomic.Uint64
		var stop atomic.Bool
		var wg sync.WaitGroup
		var samples, commits atomic.Int64
		for ti := range tabs {
			wg.Add(1)
			go func(ti int) {
				defer wg.Done()
				wr := r.Rand(idx, uint64(ti)+1)
				tb := tabs[ti]
				h := db.NewHandle(fmt.Sprintf("c9-%d-w%d", idx, ti))
				var lastCommitted uint64
				for o := 0; o < 250; o++ {
					w := h.WriteTxn(tb)
					before := tb.Revision(w)
					if before < lastCommitted {
						r.Violation("rev/decreased-across-commits", idx, map[string]any{"message": fmt.Sprintf("table %d: a write transaction starts at revision %d after revision %d was committed (a committed state was overwritten)", ti, before, lastCommitted)})
					}
					for k := 0; k < 1+wr.IntN(3); k++ {
						id := fmt.Sprint(wr.IntN(8))
						switch wr.IntN(4) {
						case 0:
							tb.Delete(w, &concw.Row{ID: id})
						case 1:
							tb.CompareAndSwap(w, 1<<40, &concw.Row{ID: id, V: 1}) // rejected
						default:
							tb.Insert(w, &concw.Row{ID: id, V: int64(o)})
						}
					}
					after := tb.Revision(w)
					if after < before {
						r.Violation("rev/decreased-in-txn", idx, map[string]any{"message": fmt.Sprintf("table %d: revision went %d -> %d inside a write transaction", ti, before, after)})
					}
					if wr.IntN(8) == 0 {
						w.Abort()
						continue
					}
					rt := w.Commit()
					if got := tb.Revision(rt); got != after {
						r.Violation("rev/commit-snapshot", idx, map[string]any{"message": fmt.Sprintf("table %d: Commit's snapshot has revision %d, the transaction had %d", ti, got, after)})
					}
					committed[ti].Store(after)
					lastCommitted = after
					commits.Add(1)
				}
			}(ti)
		}
		// table registrations run into the commits (each stores a new root)
		var registered atomic.Int64
		wg.Add(1)
		go func() {
			defer wg.Done()
			for k := 0; k < 400 && !stop.Load(); k++ {
				if _, err := statedb.NewTable(db, fmt.Sprintf("c9x%d", k), concw.IDIndex); err != nil {
					r.Violation("registration/error", idx, map[string]any{"message": err.Error()})
					return
				}
				registered.Add(1)
			}
		}()
		// iterator churn on all tables
		wg.Add(1)
		go func() {
			defer wg.Done()
			cr := r.Rand(idx, 99)
			h := db.NewHandle(fmt.Sprintf("c9-%d-it", idx))
			for !stop.Load() {
				tb := tabs[cr.IntN(3)]
				w := h.WriteTxn(tb)
				it, err := tb.Changes(w)
				w.Commit()
				if err != nil {
					continue
				}
				for k := 0; k < 3; k++ {
					seq, _ := it.Next(h.ReadTxn())
					for range seq {
					}
				}
				it.Close()
			}
		}()
		var swg sync.WaitGroup
		for s := 0; s < 3; s++ {
			swg.Add(1)
			go func() {
				defer swg.Done()
				var last [3]uint64
				for !stop.Load() {
					var floor [3]uint64
					for ti := range tabs {
						floor[ti] = committed[ti].Load()
					}
					rt := db.ReadTxn()
					for ti, tb := range tabs {
						a := tb.Revision(rt)
						b := tb.Revision(rt)
						samples.Add(1)
						switch {
						case a != b:
							r.Violation("rev/not-constant-in-snapshot", idx, map[string]any{"message": fmt.Sprintf("table %d: two reads of one snapshot gave %d and %d", ti, a, b)})
						case a < last[ti]:
							r.Violation("rev/decreased-across-snapshots", idx, map[string]any{"message": fmt.Sprintf("table %d: revision %d in a snapshot taken after one that showed %d", ti, a, last[ti])})
						case a < floor[ti]:
							r.Violation("rev/below-committed", idx, map[string]any{"message": fmt.Sprintf("table %d: snapshot shows revision %d although revision %d had been committed before it was taken (a commit was lost or overwritten)", ti, a, floor[ti])})
						}
						last[ti] = a
					}
				}
			}()
		}
		done := make(chan struct{})
		go func() {
			// writers finish first; then stop the rest
			time.Sleep(10 * time.Millisecond)
			close(done)
		}()
		<-done
		// wait for the three writers (they are the first three in wg together with the churn goroutine)
		for commits.Load() < 1 {
			time.Sleep(time.Millisecond)
		}
		// let writers run to completion
		wdone := make(chan struct{})
		go func() {
			for {
				if committed[0].Load() > 0 && committed[1].Load() > 0 && committed[2].Load() > 0 {
					break
				}
				time.Sleep(time.Millisecond)
			}
			close(wdone)
		}()
		<-wdone
		time.Sleep(300 * time.Millisecond)
		stop.Store(true)
		wg.Wait()
		swg.Wait()
		r.Count("samples", samples.Load())
		r.Count("commits_recorded", commits.Load())
		r.Count("tables_registered_during_run", registered.Load())
		r.Case(uint64(idx), samples.Load() > 0)
		if r.WantSample() {
			r.Sample(map[string]any{"case": idx, "samples": samples.Load(), "commits": commits.Load()})
		}
	})
	r.Count("interleaving_signatures", int64(ctl.Signatures()))
	r.Finish()
}
