package c02

import (
	"fmt"
	"sort"
	"sync"
	"sync/atomic"
	"testing"
	"time"

	"github.com/cilium/statedb"

	"verifharness/concw"
	"verifharness/dbsim"
	"verifharness/hookctl"
	"verifharness/vkit"
)

const rulePaused = "fault enumeration inside Commit/Abort: a writer with a transaction over 2-4 tables (tagged rows in every table, a unit moved between two rows) is paused at each of wtxn.ready, (open, after its writes), " +
	"commit.beforeRootLock, commit.rootLocked, commit.afterRootStore, commit.afterNotify, commit.afterUnlock, commit.afterInitNotify, abort.beforeUnlock, abort.afterUnlock while a second goroutine takes a snapshot: " +
	"before the root store and for aborts it must contain none of the transaction's writes, after the store all of them, never a part; the ReadTxn returned by Commit must contain all; " +
	"non-trivial = pause point reached and snapshot evaluated; distinct = (point, table count, variant)"

const ruleAbort = "random histories under virtual time (as C01/C07) with 45% aborted transactions containing every operation kind incl. Changes(), InsertWatch, rejected compare-and-*: after each Abort the full battery on every index, " +
	"revisions, retained watch channels (none may have closed) and retained snapshots are compared with the model in which the transaction never ran, and the history continues so that later transactions run against the same state; " +
	"non-trivial = at least one aborted transaction with writes followed by a committed one; distinct = hash of the operation log"

const ruleTransfers = "concurrent histories under the race detector with delay injection at the hook points: 3-8 writers run transactions over 2-4 of 4 tables that move units between rows (sum conserved) and tag rows in every table they touch, 10% aborts; " +
	"2-4 readers take snapshots continuously: every snapshot must show the initial total and, per transaction tag, all of its rows or none; the snapshot returned by Commit must contain the transaction's rows; aborted tags never appear; " +
	"recorded histories are checked by porcupine with snapshots reading all tables; non-trivial = at least 20 snapshots evaluated during the run; distinct = hash of the recorded history"

var points = []string{"wtxn.ready", "open", "commit.beforeRootLock", "commit.rootLocked", "commit.afterRootStore", "commit.afterNotify", "commit.afterUnlock", "commit.afterInitNotify", "abort.beforeUnlock", "abort.afterUnlock"}

func visibleAt(p string) bool {
	switch p {
	case "commit.afterRootStore", "commit.afterNotify", "commit.afterUnlock", "commit.afterInitNotify":
		return true
	}
	return false
}

// count rows with the tag in each table
func tagged(rt statedb.ReadTxn, tabs []statedb.RWTable[*concw.Row], tag string) []int {
	out := make([]int, len(tabs))
	for i, t := range tabs {
		for range t.List(rt, concw.TagIndex.Query(tag)) {
			out[i]++
		}
	}
	return out
}

func total(rt statedb.ReadTxn, tabs []statedb.RWTable[*concw.Row]) int64 {
	var sum int64
	for _, t := range tabs {
		for r := range t.All(rt) {
			if len(r.ID) > 3 && r.ID[:3] == "acc" {
				sum += r.V
			}
		}
	}
	return sum
}

func pausedCommit(ctl *hookctl.Ctl, idx int, point string, ntab int, withNewTable bool) (key, msg string, reached bool) {
	db := statedb.New()
	tabs := concw.NewTables(db, "p", ntab)
	// initial state: one account row per table with 100 units
	metas := make([]statedb.TableMeta, ntab)
	for i, t := range tabs {
		metas[i] = t
	}
	wi := db.WriteTxn(metas...)
	for i, t := range tabs {
		t.Insert(wi, &concw.Row{ID: fmt.Sprintf("acc%d", i), V: 100, Tag: "init"})
	}
	wi.Commit()

	hW := fmt.Sprintf("PW%d", idx)
	W := db.NewHandle(hW)
	tag := "txn-" + hW
	abort := len(point) > 6 && point[:6] == "abort."
	var pa *hookctl.Pause
	if point != "open" {
		pa = ctl.PauseAt(hW, point)
	}
	opened, goFinish, doneW := make(chan struct{}), make(chan struct{}), make(chan struct{})
	var commitSnap statedb.ReadTxn
	go func() {
		defer close(doneW)
		w := W.WriteTxn(metas...)
		// move 7 units from table 0 to the last table, tag a row in every table
		a, _, _ := tabs[0].Get(w, concw.IDIndex.Query("acc0"))
		b, _, _ := tabs[ntab-1].Get(w, concw.IDIndex.Query(fmt.Sprintf("acc%d", ntab-1)))
		tabs[0].Insert(w, &concw.Row{ID: "acc0", V: a.V - 7, Tag: "init"})
		tabs[ntab-1].Insert(w, &concw.Row{ID: b.ID, V: b.V + 7, Tag: "init"})
		for _, t := range tabs {
			t.Insert(w, &concw.Row{ID: "row-" + tag, V: 1, Tag: tag})
		}
		close(opened)
		<-goFinish
		if abort {
			w.Abort()
		} else {
			commitSnap = w.Commit()
		}
	}()
	finish := func() {
		select {
		case <-goFinish:
		default:
			close(goFinish)
		}
		if pa != nil {
			pa.Resume()
		}
	}
	defer finish()
	long := 20 * time.Second
	waitCh := func(ch <-chan struct{}) bool {
		select {
		case <-ch:
			return true
		case <-time.After(vkit.Patient(long)):
			return false
		}
	}
	switch {
	case point == "open":
		if !waitCh(opened) {
			return "stuck/" + point, "writer never opened", false
		}
	case point == "wtxn.ready":
		if !pa.WaitPaused(long) {
			return "stuck/" + point, "writer never reached the point", false
		}
	default:
		if !waitCh(opened) {
			return "stuck/" + point, "writer never opened", false
		}
		close(goFinish)
		if !pa.WaitPaused(long) {
			return "stuck/" + point, "writer never reached the point", false
		}
	}
	reached = true
	// optionally a table registration runs into the paused commit (it queues on the root lock at commit.rootLocked)
	regDone := make(chan error, 1)
	if withNewTable {
		hN := fmt.Sprintf("PN%d", idx)
		go func() {
			_, err := statedb.NewTable(db.NewHandle(hN), "late", concw.IDIndex)
			regDone <- err
		}()
		for i := 0; i < 2000 && ctl.At(hN) != "register.beforeLock" && len(regDone) == 0; i++ {
			time.Sleep(50 * time.Microsecond)
		}
		time.Sleep(300 * time.Microsecond)
	}
	// a second writer asks for the first table only and queues behind the paused one: once it is granted, what it sees through its
	// write transaction (its own table and, as a snapshot, the others) is all of the first writer's transaction or nothing of it
	hB := fmt.Sprintf("PB%d", idx)
	blocked := make(chan []int, 1)
	go func() {
		w2 := db.NewHandle(hB).WriteTxn(tabs[0])
		blocked <- tagged(w2, tabs, tag)
		w2.Abort()
	}()
	for i := 0; i < 2000 && ctl.At(hB) != "wtxn.beforeLock" && len(blocked) == 0; i++ {
		time.Sleep(50 * time.Microsecond)
	}
	// snapshot from a second goroutine
	type obs struct {
		cnt   []int
		total int64
	}
	ch := make(chan obs, 1)
	go func() {
		rt := db.ReadTxn()
		ch <- obs{tagged(rt, tabs, tag), total(rt, tabs)}
	}()
	var o obs
	select {
	case o = <-ch:
	case <-time.After(vkit.Patient(long)):
		return "reader-blocked/" + point, "snapshot did not complete while the writer is paused", true
	}
	want := 0
	if visibleAt(point) {
		want = 1
	}
	for i, c := range o.cnt {
		if c != want {
			return fmt.Sprintf("partial-visibility/%s", point), fmt.Sprintf("snapshot taken while the writer is at %s shows %v tagged rows per table (want %d in each); table %d differs", point, o.cnt, want, i), true
		}
	}
	if o.total != int64(100*ntab) {
		return "sum-not-conserved/" + point, fmt.Sprintf("snapshot at %s shows total %d, want %d", point, o.total, 100*ntab), true
	}
	finish()
	if !waitCh(doneW) {
		return "stuck/" + point, "writer did not finish after resume", true
	}
	select {
	case cnt := <-blocked:
		for _, c := range cnt {
			if c != cnt[0] {
				return "partial-visibility/blocked-writer", fmt.Sprintf("a writer that queued for table 0 while the first one was at %s sees %v tagged rows per table through its write transaction: part of that transaction", point, cnt), true
			}
		}
	case <-time.After(vkit.Patient(long)):
		return "stuck/blocked-writer/" + point, "the queued writer was never granted after the first one finished", true
	}
	if withNewTable {
		select {
		case err := <-regDone:
			if err != nil {
				return "newtable-error/" + point, err.Error(), true
			}
		case <-time.After(vkit.Patient(long)):
			return "stuck/newtable/" + point, "NewTable did not finish after the writer finished", true
		}
	}
	final := tagged(db.ReadTxn(), tabs, tag)
	wantFinal := 1
	if abort {
		wantFinal = 0
	}
	for _, c := range final {
		if c != wantFinal {
			return "final-visibility/" + point, fmt.Sprintf("after the writer finished the tagged rows per table are %v, want %d each", final, wantFinal), true
		}
	}
	if !abort {
		for _, c := range tagged(commitSnap, tabs, tag) {
			if c != 1 {
				return "commit-snapshot/" + point, "the ReadTxn returned by Commit does not contain all of the transaction's writes", true
			}
		}
	}
	if got := total(db.ReadTxn(), tabs); got != int64(100*ntab) {
		return "sum-not-conserved/" + point, fmt.Sprintf("final total %d", got), true
	}
	return "", "", true
}

func TestVerif_PausedCommit(t *testing.T) {
	r := vkit.Start(t, "C02", "paused-commit", "fault_enumeration", rulePaused)
	r.Require("pause_points_reached", "distinct:points")
	ctl := hookctl.Install(vkit.Seed())
	defer ctl.Uninstall()
	rounds := vkit.N(10, 300)
	idx := 0
	rp, ri, isReplay := vkit.ReplayCase()
	for round := 0; round < rounds; round++ {
		for _, p := range points {
			idx++
			if isReplay && !(rp == "paused-commit" && ri == idx) {
				continue
			}
			ntab := 2 + r.Rand(idx).IntN(3)
			if r.Violations() >= 3 {
				continue // fail fast: every stuck probe costs its full timeout
			}
			r.LogCase(idx)
			withNewTable := r.Rand(idx, 5).IntN(3) == 0
			key, msg, reached := pausedCommit(ctl, idx, p, ntab, withNewTable)
			if reached {
				r.Count("pause_points_reached", 1)
			}
			r.Seen("points", p)
			if withNewTable {
				r.Count("with_concurrent_registration", 1)
			}
			r.Case(vkit.NewHash().Str(p).Int(int64(ntab)).Int(int64(round)).Sum(), reached)
			if key != "" {
				r.Violation(key, idx, map[string]any{"point": p, "tables": ntab, "message": msg})
			}
			if r.WantSample() {
				r.Sample(map[string]any{"case": idx, "point": p, "tables": ntab, "expected_visible": visibleAt(p)})
			}
		}
	}
	r.Finish()
}

func TestVerif_AbortNoTrace(t *testing.T) {
	r := vkit.Start(t, "C02", "abort-no-trace", "fault_enumeration", ruleAbort)
	r.Require("aborts", "commits", "query_checks", "watch_verdicts")
	// "gc": an aborted Changes() must not leave a tracker behind - nothing may be retained on behalf of an iterator that was never committed
	o := dbsim.Opts{Tables: 2, Txns: 36, MaxOps: 8, ProbesPerIndex: 3, AbortPct: 45, Iterators: true, Watches: 24, Retain: 6, AnyTable: false, Quiesce: true, Initializers: true,
		Report: map[string]bool{"abort": true, "abortwatch": true, "frozen": true, "gc": true, "changes/uncommitted-update": true, "changes/uncommitted-delete": true, "query/retained-wtxn-seq": true}}
	dbsim.BubbleCases(t, r, vkit.N(1000, 40000), o, func(s *dbsim.Sim) bool { return s.Aborts() > 0 && s.Commits() > 0 })
	r.Finish()
}

func transferRun(r *vkit.Run, ctl *hookctl.Ctl, idx int) {
	rng := r.Rand(idx)
	const ntab = 4
	nwriters := 3 + rng.IntN(6)
	nreaders := 2 + rng.IntN(3)
	opsPer := 10 + rng.IntN(15)
	db := statedb.New()
	tabs := concw.NewTables(db, "x", ntab)
	metas := make([]statedb.TableMeta, ntab)
	for i, t := range tabs {
		metas[i] = t
	}
	wi := db.WriteTxn(metas...)
	for i, t := range tabs {
		for a := 0; a < 2; a++ {
			t.Insert(wi, &concw.Row{ID: fmt.Sprintf("acc%d-%d", i, a), V: 100, Tag: "init"})
		}
	}
	wi.Commit()
	const wantTotal = int64(ntab * 2 * 100)
	rec := concw.NewRecorder()
	var committedTags, abortedTags sync.Map // tag -> []int tables
	var snaps atomic.Int64
	stop := make(chan struct{})
	var wg, rwg sync.WaitGroup
	checkSnap := func(rt statedb.ReadTxn, who string) {
		snaps.Add(1)
		if got := total(rt, tabs); got != wantTotal {
			r.Violation("sum-not-conserved", idx, map[string]any{"message": fmt.Sprintf("%s: snapshot shows total %d, want %d", who, got, wantTotal)})
		}
		// all-or-none per tag: collect tag -> tables present
		present := map[string][]int{}
		for i, t := range tabs {
			for row := range t.All(rt) {
				if len(row.Tag) > 1 && row.Tag[0] == 'T' && row.ID[:3] == "row" {
					present[row.Tag] = append(present[row.Tag], i)
				}
			}
		}
		for tag, tbls := range present {
			if _, ab := abortedTags.Load(tag); ab {
				r.Violation("aborted-write-visible", idx, map[string]any{"message": fmt.Sprintf("%s: rows of aborted transaction %s are visible in tables %v", who, tag, tbls)})
			}
			want := tagTables(tag)
			if len(tbls) != len(want) {
				r.Violation("partial-visibility", idx, map[string]any{"message": fmt.Sprintf("%s: transaction %s wrote tables %v but the snapshot shows its rows only in %v", who, tag, want, tbls)})
			}
		}
	}
	for c := 0; c < nreaders; c++ {
		rwg.Add(1)
		go func(c int) {
			defer rwg.Done()
			h := db.NewHandle(fmt.Sprintf("x%dr%d", idx, c))
			for {
				select {
				case <-stop:
					return
				default:
				}
				call := rec.Now()
				rt := h.ReadTxn()
				seen := make([]int64, ntab)
				for i, t := range tabs {
					seen[i] = concw.Get(rt, t, "seq")
				}
				rec.Add(1000+c, concw.Op{Kind: "snap", Tables: []int{0, 1, 2, 3}}, call, concw.Out{Seen: seen}, rec.Now())
				checkSnap(rt, "reader")
			}
		}(c)
	}
	for c := 0; c < nwriters; c++ {
		wg.Add(1)
		go func(c int) {
			defer wg.Done()
			crng := r.Rand(idx, uint64(c)+1)
			handle := fmt.Sprintf("x%dw%d", idx, c)
			h := db.NewHandle(handle)
			for o := 0; o < opsPer; o++ {
				perm := crng.Perm(ntab)
				set := perm[:2+crng.IntN(3)]
				sort.Ints(set)
				tag := mkTag(c, o, set)
				ms := make([]statedb.TableMeta, len(set))
				for i, ti := range set {
					ms[i] = tabs[ti]
				}
				crng.Shuffle(len(ms), func(i, j int) { ms[i], ms[j] = ms[j], ms[i] })
				commit := crng.IntN(10) > 0
				call := rec.Now()
				w := h.WriteTxn(ms...)
				seen := make([]int64, len(set))
				for i, ti := range set {
					seen[i] = concw.Get(w, tabs[ti], "seq")
					tabs[ti].Insert(w, &concw.Row{ID: "seq", V: seen[i] + 1, Tag: "seq"})
					tabs[ti].Insert(w, &concw.Row{ID: "row-" + tag, V: 1, Tag: tag})
				}
				// move units between an account of the first and the last table of the set
				from, to := set[0], set[len(set)-1]
				fa := fmt.Sprintf("acc%d-%d", from, crng.IntN(2))
				ta := fmt.Sprintf("acc%d-%d", to, crng.IntN(2))
				if fa != ta {
					amt := int64(1 + crng.IntN(5))
					fr, _, _ := tabs[from].Get(w, concw.IDIndex.Query(fa))
					tabs[from].Insert(w, &concw.Row{ID: fa, V: fr.V - amt, Tag: "init"})
					tr, _, _ := tabs[to].Get(w, concw.IDIndex.Query(ta))
					tabs[to].Insert(w, &concw.Row{ID: ta, V: tr.V + amt, Tag: "init"})
				}
				if commit {
					rt := w.Commit()
					committedTags.Store(tag, true)
					for _, cnt := range taggedSet(rt, tabs, set, tag) {
						if cnt != 1 {
							r.Violation("commit-snapshot", idx, map[string]any{"message": "the ReadTxn returned by Commit lacks a row of the transaction " + tag})
						}
					}
					// it is the state this commit published (Commit: "a ReadTxn that is the snapshot of the database at the time of commit"):
					// a later transaction on the same tables must not show through
					for i, ti := range set {
						if got := concw.Get(rt, tabs[ti], "seq"); got != seen[i]+1 {
							r.Violation("commit-snapshot", idx, map[string]any{"message": fmt.Sprintf("the ReadTxn returned by the Commit of %s shows seq=%d in table %d, the transaction wrote %d: it is not the state this commit published", tag, got, ti, seen[i]+1)})
						}
					}
					checkSnap(rt, "commit-snapshot of "+tag)
				} else {
					abortedTags.Store(tag, true)
					w.Abort()
				}
				rec.Add(c, concw.Op{Kind: "txn", Tables: set, Commit: commit}, call, concw.Out{Seen: seen}, rec.Now())
			}
		}(c)
	}
	wg.Wait()
	close(stop)
	rwg.Wait()
	checkSnap(db.ReadTxn(), "final")
	ops := rec.Ops()
	h := vkit.NewHash()
	sort.Slice(ops, func(i, j int) bool { return ops[i].Call < ops[j].Call })
	if len(ops) > 1500 {
		// keep porcupine's search small: all transactions and a sample of the snapshots
		var kept []int
		for i, o := range ops {
			if o.Input.(concw.Op).Kind == "txn" || i%(len(ops)/400+1) == 0 {
				kept = append(kept, i)
			}
		}
		n := ops[:0:0]
		for _, i := range kept {
			n = append(n, ops[i])
		}
		ops = n
	}
	for _, o := range ops {
		h.Int(int64(o.ClientId)).Str(fmt.Sprint(o.Input, o.Output))
	}
	r.Case(h.Sum(), snaps.Load() >= 20)
	r.Count("snapshots_evaluated", snaps.Load())
	r.Count("recorded_ops", int64(len(ops)))
	verdict, detail := concw.Check(ntab, ops, 90*time.Second)
	r.Count("porcupine_"+verdict, 1)
	switch verdict {
	case "illegal":
		r.Violation("not-serializable", idx, map[string]any{"message": "porcupine: snapshots/transactions are not strictly serializable (a snapshot saw a state that is not a prefix of commits)", "history": detail})
	case "unknown":
		r.Inconclusive(fmt.Sprintf("porcupine timeout on history %d (%d ops)", idx, len(ops)))
	}
	if r.WantSample() {
		r.Sample(map[string]any{"case": idx, "writers": nwriters, "readers": nreaders, "ops_per_writer": opsPer, "snapshots": snaps.Load(), "porcupine": verdict})
	}
}

func mkTag(c, o int, set []int) string {
	s := fmt.Sprintf("T%d.%d:", c, o)
	for _, t := range set {
		s += fmt.Sprint(t)
	}
	return s
}

func tagTables(tag string) []int {
	var out []int
	for i := len(tag) - 1; i >= 0 && tag[i] != ':'; i-- {
		out = append([]int{int(tag[i] - '0')}, out...)
	}
	return out
}

func taggedSet(rt statedb.ReadTxn, tabs []statedb.RWTable[*concw.Row], set []int, tag string) []int {
	out := make([]int, len(set))
	for i, ti := range set {
		for range tabs[ti].List(rt, concw.TagIndex.Query(tag)) {
			out[i]++
		}
	}
	return out
}

func TestVerifRace_Transfers(t *testing.T) {
	r := vkit.Start(t, "C02", "transfers", "fault_enumeration", ruleTransfers)
	r.Require("snapshots_evaluated", "porcupine_ok")
	ctl := hookctl.Install(vkit.Seed())
	defer ctl.Uninstall()
	ctl.SetStress(true)
	r.ParallelCases(vkit.N(30, 600), 3, func(i int) { transferRun(r, ctl, i) })
	r.Count("interleaving_signatures", int64(ctl.Signatures()))
	for p, c := range ctl.Counts() {
		r.Count("hook:"+p, c)
	}
	r.Finish()
}
