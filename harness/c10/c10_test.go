package c10

import (
	"context"
	"fmt"
	"log/slog"
	"os"
	"path/filepath"
	"runtime"
	"sync"
	"sync/atomic"
	"testing"
	"time"

	"github.com/cilium/hive"
	"github.com/cilium/hive/cell"
	"github.com/cilium/hive/hivetest"
	"github.com/cilium/hive/job"
	"github.com/cilium/hive/script"
	"github.com/cilium/statedb"

	"verifharness/concw"
	"verifharness/hookctl"
	"verifharness/vkit"
)

const ruleProbes = "fault enumeration over hook points: writer W is paused at each of wtxn.afterLock, wtxn.afterRootLoad, wtxn.ready, (open), commit.beforeRootLock, commit.rootLocked, commit.afterRootStore, " +
	"commit.afterNotify, abort.beforeUnlock while probes run from other goroutines: (i) WriteTxn+write+Commit on disjoint tables, (ii) ReadTxn + reads of all tables, (iii) creating and closing a change iterator on a disjoint table, " +
	"(iv) WriteTxn over duplicate/unordered table sets from one goroutine; probes (i),(iii) are not expected to finish at commit.rootLocked (they queue on the short root lock) but must finish after W resumes; " +
	"a same-table request must be granted once W finishes; non-trivial = pause point reached and all probes ran; distinct = (point, variant)"

const ruleStress = "stress under the race detector with delay injection: 2-8 tables, 2-32 goroutines, WriteTxn over random table sets in random order with duplicates, commits/aborts, change iterator create/Next/Close, " +
	"graveyard collection every 1 ms, table registration in flight; oracle: lock-order monitor on every acquisition (strictly increasing sequence numbers within one WriteTxn), fixed operation count must complete, " +
	"no-progress watchdog (30 s) whose firing is a violation only if the hook-derived wait-for snapshot shows every worker between wtxn.beforeLock and wtxn.afterLock, otherwise inconclusive; " +
	"non-trivial = run with >= 2 goroutines sharing a table; distinct = (configuration, seed)"

var points = []string{"wtxn.afterLock", "wtxn.afterRootLoad", "wtxn.ready", "open", "commit.beforeRootLock", "commit.rootLocked", "commit.afterRootStore", "commit.afterNotify", "abort.beforeUnlock"}

func within(d time.Duration, f func()) bool {
	done := make(chan struct{})
	go func() { defer close(done); f() }()
	select {
	case <-done:
		return true
	case <-time.After(vkit.Patient(d)):
		return false
	}
}

func probe(ctl *hookctl.Ctl, idx int, point string, rngTwo bool) (key, msg string, reached bool) {
	db := statedb.New()
	db.VerifSetGCInterval(time.Millisecond)
	db.Start()
	defer db.Stop()
	tabs := concw.NewTables(db, "t", 4)
	if idx%2 == 1 {
		// W holds the tables with the higher lock sequence numbers, the probes use the lower ones (a goroutine that takes
		// locks it does not need - e.g. the collector - then blocks on W's table while holding the probes' tables)
		tabs[0], tabs[1], tabs[2], tabs[3] = tabs[3], tabs[2], tabs[1], tabs[0]
	}
	hW := fmt.Sprintf("W%d", idx)
	W := db.NewHandle(hW)
	abort := point == "abort.beforeUnlock"
	var pa *hookctl.Pause
	if point != "open" {
		pa = ctl.PauseAt(hW, point)
	}
	opened, goFinish, doneW := make(chan struct{}), make(chan struct{}), make(chan struct{})
	go func() {
		defer close(doneW)
		var w statedb.WriteTxn
		if rngTwo {
			w = W.WriteTxn(tabs[1], tabs[0], tabs[1])
		} else {
			w = W.WriteTxn(tabs[0])
		}
		tabs[0].Insert(w, &concw.Row{ID: "w", V: 1})
		close(opened)
		<-goFinish
		if abort {
			w.Abort()
		} else {
			w.Commit()
		}
	}()
	finish := func() {
		select {
		case <-goFinish:
		default:
			close(goFinish)
		}
		if pa != nil {
			pa.Resume()
		}
	}
	defer finish()
	long := 20 * time.Second
	switch {
	case point == "open":
		if !within(long, func() { <-opened }) {
			return "stuck/open", "W never opened", false
		}
	case point[:5] == "wtxn.":
		if !pa.WaitPaused(long) {
			return "stuck/" + point, "W never reached the point", false
		}
	default:
		if !within(long, func() { <-opened }) {
			return "stuck/" + point, "W never opened", false
		}
		close(goFinish)
		if !pa.WaitPaused(long) {
			return "stuck/" + point, "W never reached the point", false
		}
	}
	reached = true
	queues := point == "commit.rootLocked" // committers legitimately queue on the root lock here

	// (ii) readers never wait
	if !within(long, func() {
		rt := db.ReadTxn()
		for _, t := range tabs {
			concw.Get(rt, t, "w")
			for range t.All(rt) {
			}
		}
	}) {
		return "reader-blocked/" + point, "ReadTxn + reads did not complete while W is paused at " + point, true
	}
	// (i) disjoint committer, (iii) iterator create/close on a disjoint table, (iv) duplicate/unordered sets
	disjoint := func() {
		h := db.NewHandle(fmt.Sprintf("P%d", idx))
		w := h.WriteTxn(tabs[3], tabs[2], tabs[3], tabs[2])
		tabs[2].Insert(w, &concw.Row{ID: "p", V: 1})
		tabs[3].Insert(w, &concw.Row{ID: "p", V: 1})
		tabs[3].Delete(w, &concw.Row{ID: "p"})
		w.Commit()
		wt := h.WriteTxn(tabs[3])
		it, err := tabs[3].Changes(wt)
		wt.Commit()
		if err == nil {
			seq, _ := it.Next(h.ReadTxn())
			for range seq {
			}
			it.Close()
		}
		w2 := h.WriteTxn(tabs[2])
		w2.Abort()
		// the collector has been triggered by the iterator's marks/close above: give it a round, then use both tables again
		time.Sleep(3 * time.Millisecond)
		for k := 0; k < 3; k++ {
			w3 := h.WriteTxn(tabs[2], tabs[3])
			tabs[2].Insert(w3, &concw.Row{ID: "q", V: int64(k)})
			w3.Commit()
			time.Sleep(time.Millisecond)
		}
	}
	doneP := make(chan struct{})
	go func() { defer close(doneP); disjoint() }()
	if !queues {
		if !within(long, func() { <-doneP }) {
			return "disjoint-blocked/" + point, fmt.Sprintf("transactions on disjoint tables did not complete while W is paused at %s (positions %v)", point, ctl.Snapshot()), true
		}
	}
	// same-table request is granted once W finishes
	doneS := make(chan struct{})
	go func() {
		defer close(doneS)
		h := db.NewHandle(fmt.Sprintf("S%d", idx))
		w := h.WriteTxn(tabs[0])
		tabs[0].Insert(w, &concw.Row{ID: "s", V: 1})
		w.Commit()
	}()
	finish()
	if !within(long, func() { <-doneW; <-doneP; <-doneS }) {
		return "not-granted/" + point, fmt.Sprintf("after W finished, the queued transactions did not complete (positions %v)", ctl.Snapshot()), true
	}
	return "", "", true
}

func TestVerif_Probes(t *testing.T) {
	r := vkit.Start(t, "C10", "probes", "fault_enumeration", ruleProbes)
	r.Require("pause_points_reached", "lock_acquisitions")
	ctl := hookctl.Install(vkit.Seed())
	defer ctl.Uninstall()
	rounds := vkit.N(6, 120)
	idx := 0
	rp, ri, isReplay := vkit.ReplayCase()
	for round := 0; round < rounds; round++ {
		for _, p := range points {
			idx++
			if isReplay && !(rp == "probes" && ri == idx) {
				continue
			}
			two := r.Rand(idx).IntN(2) == 0
			if r.Violations() >= 3 {
				continue // fail fast: every stuck probe costs its full timeout
			}
			r.LogCase(idx)
			key, msg, reached := probe(ctl, idx, p, two)
			if reached {
				r.Count("pause_points_reached", 1)
			}
			r.Seen("points", p)
			r.Case(vkit.NewHash().Str(p).Int(int64(round)).Sum(), reached)
			if key != "" {
				r.Violation(key, idx, map[string]any{"point": p, "two_tables": two, "message": msg})
			}
			if r.WantSample() {
				r.Sample(map[string]any{"case": idx, "point": p, "w_holds_two_tables": two, "probes": "reader, disjoint committer + iterator create/close, duplicate table sets, same-table request after resume"})
			}
		}
	}
	// tables registered at the same moment from several goroutines must still get a total lock order: pairwise distinct
	// sequence numbers (equal numbers let WriteTxn(a,b) and WriteTxn(b,a) take the two locks in opposite orders)
	{
		rounds := vkit.N(3000, 60000)
		dups := 0
		for round := 0; round < rounds && dups == 0; round++ {
			db := statedb.New()
			const k = 8
			var wg sync.WaitGroup
			var ready, goFlag atomic.Int32
			tbls := make([]statedb.RWTable[*concw.Row], k)
			for g := 0; g < k; g++ {
				wg.Add(1)
				go func(g int) {
					defer wg.Done()
					ready.Add(1)
					for goFlag.Load() == 0 { // spin barrier: all goroutines enter NewTable at the same instant
					}
					tbls[g], _ = statedb.NewTable(db, fmt.Sprintf("c%d", g), concw.IDIndex)
				}(g)
			}
			for ready.Load() < k {
				runtime.Gosched()
			}
			goFlag.Store(1)
			wg.Wait()
			seen := map[uint64]int{}
			for g, tb := range tbls {
				if tb == nil {
					continue
				}
				q := statedb.VerifTableLockSeq(tb)
				if o, dup := seen[q]; dup {
					dups++
					r.Violation("duplicate-lock-sequence", round, map[string]any{"message": fmt.Sprintf("tables c%d and c%d registered concurrently share lock sequence number %d: their locks have no fixed order", o, g, q)})
					break
				}
				seen[q] = g
			}
			r.Count("concurrent_registration_rounds", 1)
		}
		r.Case(vkit.NewHash().Str("concurrent-registration").Sum(), true)
	}
	// change iterators take and release table locks of their own (registration is a write, Close is a write transaction): every
	// order of Changes / Commit / Abort / Close / a second Close must leave the tables lockable
	{
		type step string
		seqs := [][]step{
			{"changes", "abort", "close"},
			{"changes", "abort", "close", "close"},
			{"changes", "commit", "close", "close"},
			{"changes", "abort", "changes2", "commit", "close", "close2"},
			{"changes", "changes2", "abort", "close2", "close"},
			{"changes", "commit", "delete", "close", "changes2", "abort", "close2"},
			{"changes", "commit", "next", "delete", "next", "close"},
		}
		for variant, seq := range seqs {
			db := statedb.New()
			tabs := concw.NewTables(db, "it", 2)
			w0 := db.WriteTxn(tabs[0])
			tabs[0].Insert(w0, &concw.Row{ID: "x"})
			w0.Commit()
			var its [2]statedb.ChangeIterator[*concw.Row]
			var w statedb.WriteTxn
			panicked := ""
			ok := within(10*time.Second, func() {
				defer func() {
					if x := recover(); x != nil {
						panicked = fmt.Sprint(x)
					}
				}()
				for _, st := range seq {
					switch st {
					case "changes", "changes2":
						if w == nil {
							w = db.WriteTxn(tabs[0], tabs[1])
						}
						it, err := tabs[0].Changes(w)
						if err != nil {
							panic(err)
						}
						its[len(st)-len("changes")] = it
					case "commit":
						w.Commit()
						w = nil
					case "abort":
						w.Abort()
						w = nil
					case "delete":
						wd := db.WriteTxn(tabs[0])
						tabs[0].Delete(wd, &concw.Row{ID: "x"})
						wd.Commit()
					case "close":
						its[0].Close()
					case "close2":
						its[1].Close()
					case "next":
						chs, _ := its[0].Next(db.ReadTxn())
						for range chs {
						}
					}
				}
				if w != nil {
					w.Abort()
				}
			})
			r.Count("iterator_lifecycle_probes", 1)
			switch {
			case !ok:
				r.Violation("blocked-in-iterator-lifecycle", variant, map[string]any{"message": fmt.Sprintf("the sequence %v does not complete", seq)})
			case panicked != "":
				r.Violation("panic-in-iterator-lifecycle", variant, map[string]any{"message": fmt.Sprintf("the sequence %v panics: %s", seq, panicked)})
			case !within(10*time.Second, func() {
				w := db.WriteTxn(tabs[0], tabs[1])
				tabs[0].Insert(w, &concw.Row{ID: "y"})
				w.Commit()
				w = db.WriteTxn(tabs[0])
				it, _ := tabs[0].Changes(w)
				w.Commit()
				it.Close()
			}):
				r.Violation("blocked-after-iterator-lifecycle", variant, map[string]any{"message": fmt.Sprintf("after the sequence %v a WriteTxn over the tables is never granted: a table lock was left held", seq)})
			}
			r.Case(vkit.NewHash().Str("iterator-lifecycle").Int(int64(variant)).Sum(), true)
		}
	}
	// a rejected registration (duplicate name) must leave nothing locked: commits and registrations afterwards complete
	{
		db := statedb.New()
		tabs := concw.NewTables(db, "r", 2)
		if _, err := statedb.NewTable(db, "r1", concw.IDIndex); err == nil {
			r.Violation("duplicate-table-accepted", 0, map[string]any{"message": "NewTable with an existing name did not fail"})
		}
		if !within(10*time.Second, func() {
			w := db.WriteTxn(tabs[0], tabs[1])
			tabs[0].Insert(w, &concw.Row{ID: "x"})
			w.Commit()
			statedb.NewTable(db, "r2", concw.IDIndex)
			w = db.WriteTxn(tabs[1])
			w.Abort()
		}) {
			r.Violation("blocked-after-rejected-registration", 0, map[string]any{"message": "after NewTable was rejected for a duplicate name, a following Commit / NewTable does not complete (root lock left held)"})
		}
		r.Case(vkit.NewHash().Str("rejected-registration").Sum(), true)
	}
	// a WriteTxn that is refused (it names the table value of a rejected registration: documented panic) must leave nothing
	// locked, whatever the position of that table among registered ones
	{
		db := statedb.New()
		tabs := concw.NewTables(db, "u", 3)
		dup, err := statedb.NewTable(db, "u1", concw.IDIndex, concw.TagIndex)
		if err == nil {
			r.Violation("duplicate-table-accepted", 0, map[string]any{"message": "NewTable with an existing name did not fail"})
		} else if dup != nil {
			for variant, set := range [][]statedb.TableMeta{{dup}, {tabs[0], dup}, {dup, tabs[2]}, {tabs[2], dup, tabs[0], tabs[1]}} {
				refused := false
				returned := within(10*time.Second, func() {
					defer func() { refused = recover() != nil }()
					w := db.WriteTxn(set...)
					w.Abort()
				})
				r.Count("refused_writetxn_probes", 1)
				if !returned {
					r.Violation("blocked-after-refused-writetxn", variant, map[string]any{"message": fmt.Sprintf("WriteTxn over table set variant %d containing an unregistered table neither returns nor panics: an earlier refused WriteTxn left a lock held", variant)})
					break
				}
				if !refused {
					continue // granted and aborted: nothing to check beyond the locks below
				}
				if !within(10*time.Second, func() {
					w := db.WriteTxn(tabs[0], tabs[1], tabs[2])
					tabs[0].Insert(w, &concw.Row{ID: "x"})
					w.Commit()
				}) {
					r.Violation("blocked-after-refused-writetxn", variant, map[string]any{"message": fmt.Sprintf("WriteTxn over table set variant %d containing an unregistered table panicked (as documented) but left registered tables locked: a following WriteTxn over all tables is never granted", variant)})
					break
				}
			}
		}
		r.Case(vkit.NewHash().Str("refused-writetxn").Sum(), true)
	}
	// the library's own script commands open write transactions: on every exit path (success, missing file, malformed document in
	// the middle, delete of a missing object) the table must be lockable again once the command has returned
	{
		db := statedb.New()
		tabs := concw.NewTables(db, "s", 2)
		dir := t.TempDir()
		files := map[string]string{
			"good.yaml": "id: a\nv: 1\n---\nid: b\nv: 2\n",
			"bad.yaml":  "id: c\nv: 3\n---\nid: d\nv: [not, a, number]\n",
			"junk.yaml": "{{{{",
		}
		for n, c := range files {
			if err := os.WriteFile(filepath.Join(dir, n), []byte(c), 0o644); err != nil {
				t.Fatal(err)
			}
		}
		state, err := script.NewState(context.Background(), dir, nil)
		if err != nil {
			t.Fatal(err)
		}
		cmds := map[string]script.Cmd{"insert": statedb.InsertCmd(db), "delete": statedb.DeleteCmd(db)}
		for _, step := range [][]string{
			{"insert", "s0", "good.yaml"}, {"insert", "s0", "good.yaml", "missing.yaml"}, {"insert", "s0", "good.yaml", "bad.yaml"}, {"insert", "s0", "junk.yaml"},
			{"delete", "s0", "bad.yaml"}, {"delete", "s0", "missing.yaml"}, {"delete", "s0", "good.yaml"}, {"delete", "s0", "good.yaml"}, {"insert", "nosuchtable", "good.yaml"}, {"insert", "s1", "good.yaml", "junk.yaml"},
		} {
			var cmdErr error
			finished := within(10*time.Second, func() {
				defer func() {
					if p := recover(); p != nil {
						cmdErr = fmt.Errorf("panic: %v", p)
					}
				}()
				var wf script.WaitFunc
				wf, cmdErr = cmds[step[0]].Run(state, step[1:]...)
				if wf != nil && cmdErr == nil {
					_, _, cmdErr = wf(state)
				}
			})
			r.Count("script_command_probes", 1)
			if !finished {
				r.Violation("script-command-stuck", 0, map[string]any{"message": fmt.Sprintf("db/%v did not return", step)})
				break
			}
			if !within(10*time.Second, func() {
				w := db.WriteTxn(tabs[1], tabs[0])
				tabs[0].Insert(w, &concw.Row{ID: "probe"})
				w.Abort()
			}) {
				r.Violation("blocked-after-script-command", 0, map[string]any{"message": fmt.Sprintf("after db/%v returned (error: %v) a WriteTxn over the tables is never granted: the command left its write transaction open", step, cmdErr)})
				break
			}
		}
		r.Case(vkit.NewHash().Str("script-commands").Sum(), true)
	}
	// the collector between its lock-free scan and its write transaction: every dead object it saw is brought back (re-inserted)
	// before it gets the table locks, so its transaction finds nothing to collect - it must still be finished
	for round := 0; round < vkit.N(20, 400) && r.Violations() < 3; round++ {
		hn := fmt.Sprintf("gcprobe%d", round)
		db := statedb.New().NewHandle(hn)
		db.VerifSetGCInterval(time.Millisecond)
		tabs := concw.NewTables(db, "g", 2)
		pa := ctl.PauseAt(hn, "gc.afterScan")
		db.Start()
		w := db.WriteTxn(tabs[0])
		it, err := tabs[0].Changes(w)
		w.Commit()
		if err != nil {
			t.Fatal(err)
		}
		n := 1 + round%3
		for k := 0; k < n; k++ {
			w = db.WriteTxn(tabs[0], tabs[1])
			tabs[0].Insert(w, &concw.Row{ID: fmt.Sprint(k), V: 1})
			tabs[1].Insert(w, &concw.Row{ID: fmt.Sprint(k), V: 1})
			w.Commit()
		}
		w = db.WriteTxn(tabs[0])
		for k := 0; k < n; k++ {
			tabs[0].Delete(w, &concw.Row{ID: fmt.Sprint(k)})
		}
		w.Commit()
		seq, _ := it.Next(db.ReadTxn()) // observing the deletions lets the collector go
		for range seq {
		}
		reached := pa.WaitPaused(5 * time.Second)
		if reached {
			w = db.WriteTxn(tabs[0])
			for k := 0; k < n; k++ {
				tabs[0].Insert(w, &concw.Row{ID: fmt.Sprint(k), V: 2})
			}
			w.Commit()
			r.Count("collector_paused_and_resurrected", 1)
		}
		pa.Resume()
		time.Sleep(3 * time.Millisecond)
		if !within(10*time.Second, func() {
			w := db.WriteTxn(tabs[1], tabs[0])
			tabs[0].Insert(w, &concw.Row{ID: "probe"})
			w.Abort()
			it.Close()
		}) {
			r.Violation("blocked-after-collection", round, map[string]any{"message": fmt.Sprintf("the collector scanned %d dead object(s), all of which were re-inserted before it got its write transaction; afterwards a WriteTxn over the tables (or closing the iterator) is never granted", n)})
		} else {
			db.Stop()
		}
		r.Case(vkit.NewHash().Str("gc-resurrect").Int(int64(round)).Sum(), reached)
	}
	// statedb.Observable registers its change iterator in a write transaction of its own: whenever its context ends - before
	// Observe is called, while it queues behind a writer, or later - the table must be lockable afterwards
	for variant := 0; variant < 3 && r.Violations() < 3; variant++ {
		db := statedb.New()
		tabs := concw.NewTables(db, fmt.Sprintf("o%d-", variant), 1)
		ctx, cancel := context.WithCancel(context.Background())
		completed := make(chan struct{})
		obs := statedb.Observable[*concw.Row](db, tabs[0])
		switch variant {
		case 0: // context already ended
			cancel()
			obs.Observe(ctx, func(statedb.Change[*concw.Row]) {}, func(error) { close(completed) })
		case 1: // context ends while Observe queues behind a writer
			w := db.WriteTxn(tabs[0])
			obs.Observe(ctx, func(statedb.Change[*concw.Row]) {}, func(error) { close(completed) })
			time.Sleep(20 * time.Millisecond)
			cancel()
			time.Sleep(5 * time.Millisecond)
			w.Commit()
		default: // ordinary use: observe, change, cancel
			obs.Observe(ctx, func(statedb.Change[*concw.Row]) {}, func(error) { close(completed) })
			w := db.WriteTxn(tabs[0])
			tabs[0].Insert(w, &concw.Row{ID: "x"})
			w.Commit()
			time.Sleep(10 * time.Millisecond)
			cancel()
		}
		select {
		case <-completed:
		case <-time.After(vkit.Patient(10 * time.Second)):
			r.Violation("observable-never-completes", variant, map[string]any{"message": fmt.Sprintf("variant %d: Observe never called complete after its context ended", variant)})
		}
		if !within(10*time.Second, func() {
			w := db.WriteTxn(tabs[0])
			tabs[0].Insert(w, &concw.Row{ID: "probe"})
			w.Abort()
		}) {
			r.Violation("blocked-after-observe", variant, map[string]any{"message": fmt.Sprintf("variant %d: after an Observable's context ended a WriteTxn on its table is never granted: Observe left its write transaction open", variant)})
		}
		cancel()
		r.Count("observable_probes", 1)
		r.Case(vkit.NewHash().Str("observable").Int(int64(variant)).Sum(), true)
	}
	// statedb.Derive opens a write transaction on the output table for every batch of changes: stopping the job while it is idle or
	// in the middle of a batch must leave both tables lockable
	for variant := 0; variant < 4 && r.Violations() < 3; variant++ {
		key, msg := deriveProbe(t, variant)
		r.Count("derive_probes", 1)
		if key != "" {
			r.Violation(key, variant, map[string]any{"message": msg, "variant": variant})
		}
		r.Case(vkit.NewHash().Str("derive").Int(int64(variant)).Sum(), true)
	}
	// single goroutine, duplicate tables in any order
	db := statedb.New()
	tabs := concw.NewTables(db, "d", 3)
	if !within(10*time.Second, func() {
		w := db.WriteTxn(tabs[1], tabs[1], tabs[0], tabs[1], tabs[2], tabs[0])
		tabs[1].Insert(w, &concw.Row{ID: "x"})
		w.Commit()
	}) {
		r.Violation("self-deadlock/duplicates", 0, map[string]any{"message": "WriteTxn(t1,t1,t0,t1,t2,t0) from a single goroutine did not return"})
	}
	// the collector is a writer too: with every deleted object still needed by a lagging iterator it has nothing to collect and must not
	// take part in the locking at all - a long writer on one table then delays nobody on the others, also not through the collector
	// (c10r8-1: the collector locking every table whose graveyard is non-empty sits on the lower table while it waits for the higher)
	for round := 0; round < 6 && r.Violations() < 3; round++ {
		dbg := statedb.New()
		dbg.VerifSetGCInterval(time.Millisecond)
		dbg.Start()
		g := concw.NewTables(dbg, "g", 3)
		held, other := 1, 0 // the long writer holds the table that sorts after the one probed
		if round%2 == 1 {
			held, other = 0, 1
		}
		w := dbg.WriteTxn(g[0], g[1], g[2])
		g[0].Insert(w, &concw.Row{ID: "dead"})
		g[1].Insert(w, &concw.Row{ID: "dead"})
		it0, _ := g[0].Changes(w)
		it1, _ := g[1].Changes(w)
		it2, _ := g[2].Changes(w)
		w.Commit()
		w = dbg.WriteTxn(g[0], g[1])
		g[0].Delete(w, &concw.Row{ID: "dead"})
		g[1].Delete(w, &concw.Row{ID: "dead"})
		w.Commit() // both graveyards non-empty, nothing collectable: it0 and it1 have not seen the deletions
		long := dbg.WriteTxn(g[held])
		g[held].Insert(long, &concw.Row{ID: "long"})
		it2.Close() // triggers collection rounds
		time.Sleep(30 * time.Millisecond)
		ok := within(5*time.Second, func() {
			w := dbg.WriteTxn(g[other])
			g[other].Insert(w, &concw.Row{ID: "probe"})
			w.Commit()
		})
		long.Commit()
		r.Count("collector_independence_probes", 1)
		r.Case(vkit.NewHash().Str("collector-nothing-collectable").Int(int64(round)).Sum(), true)
		if !ok {
			r.Violation("disjoint-blocked/collector-nothing-collectable", round, map[string]any{"message": fmt.Sprintf("a write transaction on table g%d did not complete within 5 s while a writer held only g%d and the collector ran with nothing collectable (every deleted object still needed by a lagging iterator)", other, held)})
		}
		if ok {
			it0.Close()
			it1.Close()
			dbg.Stop()
		}
	}
	// the same with many tables (c10r8-2: de-duplication through a 64-bit set): a database of 300 tables, table sets of 2-40 tables
	// drawn from every region of the position range (0-63, 64-127, 128-255, 256-299), each named 1-4 times at random places of
	// the argument list, so that repeats are adjacent and far apart; every table named must be writable in the transaction
	{
		dbm := statedb.New()
		many := concw.NewTables(dbm, "m", 300)
		rng := r.Rand(7_000_001)
		rounds := 200
		for round := 0; round < rounds && r.Violations() < 3; round++ {
			n := 2 + rng.IntN(39)
			var set []statedb.TableMeta
			var named []int
			for i := 0; i < n; i++ {
				var pos int
				switch rng.IntN(4) {
				case 0:
					pos = rng.IntN(64)
				case 1:
					pos = 64 + rng.IntN(64)
				case 2:
					pos = 128 + rng.IntN(128)
				default:
					pos = 256 + rng.IntN(44)
				}
				named = append(named, pos)
				for k := 1 + rng.IntN(4); k > 0; k-- {
					set = append(set, many[pos])
				}
			}
			rng.Shuffle(len(set), func(i, j int) { set[i], set[j] = set[j], set[i] })
			id := fmt.Sprintf("r%d", round)
			ok := within(10*time.Second, func() {
				w := dbm.WriteTxn(set...)
				for _, pos := range named {
					many[pos].Insert(w, &concw.Row{ID: id})
				}
				w.Commit()
			})
			r.Count("many_table_duplicate_sets", 1)
			if !ok {
				r.Violation("self-deadlock/duplicates-many-tables", round, map[string]any{"message": fmt.Sprintf("WriteTxn over %d arguments naming %d of 300 tables (positions %v, each 1-4 times, shuffled) from a single goroutine did not return", len(set), n, named)})
				break
			}
			rt := dbm.ReadTxn()
			for _, pos := range named {
				if _, _, found := many[pos].Get(rt, concw.IDIndex.Query(id)); !found {
					r.Violation("duplicates-many-tables/write-lost", round, map[string]any{"message": fmt.Sprintf("row %s written to table m%d in a transaction over a table set with repeats is not in the committed state", id, pos)})
				}
			}
			r.Case(vkit.NewHash().Str("dupmany").Int(int64(round)).Sum(), true)
		}
	}
	for _, v := range ctl.Violations() {
		r.Violation("monitor/lock-order", 0, map[string]any{"message": v})
	}
	_, acqs := ctl.LockStats()
	r.Count("lock_acquisitions", acqs)
	r.Finish()
}

func stressRun(r *vkit.Run, ctl *hookctl.Ctl, idx int) {
	rng := r.Rand(idx)
	ntab := 2 + rng.IntN(7)
	nworkers := []int{2, 4, 8, 16, 32}[rng.IntN(5)]
	opsPer := vkit.N(60, 120)
	db := statedb.New()
	db.VerifSetGCInterval(time.Millisecond)
	db.Start()
	tabs := concw.NewTables(db, "t", ntab)
	var progress atomic.Int64
	var wg sync.WaitGroup
	var extraMu sync.Mutex
	var extra []statedb.RWTable[*concw.Row]
	stop := make(chan struct{})
	for w := 0; w < nworkers; w++ {
		wg.Add(1)
		go func(w int) {
			defer wg.Done()
			wr := r.Rand(idx, uint64(w)+1)
			h := db.NewHandle(fmt.Sprintf("s%dw%d", idx, w))
			var its []statedb.ChangeIterator[*concw.Row]
			for o := 0; o < opsPer; o++ {
				switch x := wr.IntN(100); {
				case x < 60:
					n := 1 + wr.IntN(ntab)
					metas := make([]statedb.TableMeta, n)
					idxs := make([]int, n)
					for i := range metas {
						idxs[i] = wr.IntN(ntab)
						metas[i] = tabs[idxs[i]]
					}
					// tables registered while the run is in flight take part too
					var mine []statedb.RWTable[*concw.Row]
					extraMu.Lock()
					for k := 0; k < 2 && len(extra) > 0; k++ {
						e := extra[wr.IntN(len(extra))]
						mine = append(mine, e)
						metas = append(metas, e)
					}
					extraMu.Unlock()
					wr.Shuffle(len(metas), func(a, b int) { metas[a], metas[b] = metas[b], metas[a] })
					wt := h.WriteTxn(metas...)
					for _, e := range mine {
						e.Insert(wt, &concw.Row{ID: "x", V: int64(o)})
					}
					for _, ti := range idxs {
						id := fmt.Sprint(wr.IntN(6))
						if wr.IntN(3) == 0 {
							tabs[ti].Delete(wt, &concw.Row{ID: id})
						} else {
							tabs[ti].Insert(wt, &concw.Row{ID: id, V: int64(o)})
						}
					}
					if wr.IntN(8) == 0 {
						wt.Abort()
					} else {
						wt.Commit()
					}
				case x < 72:
					ti := wr.IntN(ntab)
					wt := h.WriteTxn(tabs[ti])
					it, err := tabs[ti].Changes(wt)
					wt.Commit()
					if err == nil {
						its = append(its, it)
					}
				case x < 84 && len(its) > 0:
					i := wr.IntN(len(its))
					seq, _ := its[i].Next(h.ReadTxn())
					n := 0
					for range seq {
						n++
						if n > 3 && wr.IntN(2) == 0 {
							break
						}
					}
					if wr.IntN(3) == 0 {
						its[i].Close()
						its = append(its[:i], its[i+1:]...)
					}
				case x < 88:
					if wr.IntN(3) == 0 {
						statedb.NewTable(h, "t0", concw.IDIndex) // rejected: duplicate name
					} else {
						if nt, err := statedb.NewTable(h, fmt.Sprintf("n%dw%do%d", idx%100, w, o), concw.IDIndex); err == nil {
							extraMu.Lock()
							extra = append(extra, nt)
							extraMu.Unlock()
						}
					}
				default:
					rt := h.ReadTxn()
					for _, t := range tabs {
						concw.Get(rt, t, "1")
					}
				}
				progress.Add(1)
			}
			for _, it := range its {
				it.Close()
			}
		}(w)
	}
	done := make(chan struct{})
	go func() { wg.Wait(); close(done) }()
	last, lastAt := int64(-1), time.Now()
	verdict := "completed"
loop:
	for {
		select {
		case <-done:
			break loop
		case <-time.After(200 * time.Millisecond):
			if p := progress.Load(); p != last {
				last, lastAt = p, time.Now()
			} else if time.Since(lastAt) > 30*time.Second {
				snap := ctl.Snapshot()
				blocked := 0
				mine := 0
				for hname, at := range snap {
					if len(hname) > 1 && hname[:1] == "s" {
						mine++
						// waiting for a table lock, for the root lock in Commit, or for the root lock in registerTable
						if at == "wtxn.beforeLock" || at == "commit.beforeRootLock" || at == "register.beforeLock" {
							blocked++
						}
					}
				}
				if mine > 0 && blocked == mine {
					verdict = "deadlock"
					r.Violation("deadlock", idx, map[string]any{"message": fmt.Sprintf("no operation completed for 30 s and every worker in flight (%d) is waiting for a table lock (wtxn.beforeLock) or the root lock (commit.beforeRootLock / register.beforeLock)", mine), "positions": snap,
						"tables": ntab, "workers": nworkers})
				} else {
					verdict = "inconclusive"
					r.Inconclusive(fmt.Sprintf("stress run %d: no progress for 30 s but the wait-for snapshot does not show a lock cycle: %v", idx, snap))
				}
				break loop
			}
		}
	}
	close(stop)
	if verdict == "completed" {
		db.Stop()
	}
	// the ordering of table locks relies on pairwise distinct sequence numbers
	seqs := map[uint64]string{}
	extraMu.Lock()
	all := append([]statedb.RWTable[*concw.Row]{}, tabs...)
	all = append(all, extra...)
	extraMu.Unlock()
	for _, tb := range all {
		q := statedb.VerifTableLockSeq(tb)
		if other, dup := seqs[q]; dup {
			r.Violation("duplicate-lock-sequence", idx, map[string]any{"message": fmt.Sprintf("tables %s and %s (registered concurrently) have the same lock sequence number %d: WriteTxn(a,b) and WriteTxn(b,a) can take them in opposite orders", other, tb.Name(), q)})
			break
		}
		seqs[q] = tb.Name()
	}
	r.Count("tables_registered_in_flight", int64(len(all)-len(tabs)))
	r.Count("operations_completed", progress.Load())
	r.Count("runs_"+verdict, 1)
	r.Case(vkit.NewHash().Int(int64(idx)).Int(int64(ntab)).Int(int64(nworkers)).Sum(), nworkers >= 2)
	if r.WantSample() {
		r.Sample(map[string]any{"case": idx, "tables": ntab, "workers": nworkers, "ops_per_worker": opsPer, "verdict": verdict})
	}
}

func TestVerifRace_Stress(t *testing.T) {
	r := vkit.Start(t, "C10", "stress", "fault_enumeration", ruleStress)
	r.Require("operations_completed", "lock_acquisitions", "runs_completed")
	ctl := hookctl.Install(vkit.Seed())
	defer ctl.Uninstall()
	ctl.SetStress(true)
	n := vkit.N(40, 800)
	r.ParallelCases(n, 2, func(i int) { stressRun(r, ctl, i) })
	for _, v := range ctl.Violations() {
		r.Violation("monitor/lock-order", 0, map[string]any{"message": v})
	}
	calls, acqs := ctl.LockStats()
	r.Count("lock_calls", calls)
	r.Count("lock_acquisitions", acqs)
	r.Count("interleaving_signatures", int64(ctl.Signatures()))
	for p, c := range ctl.Counts() {
		r.Count("hook:"+p, c)
	}
	r.Finish()
}

// deriveProbe runs a Derive job from table "in" to table "out" in a hive and stops the hive while the job is idle (variant 0), in the
// middle of a batch (1: first object, 2: second of three), or in the middle of the second batch (3).
func deriveProbe(t *testing.T, variant int) (key, msg string) {
	var (
		db      *statedb.DB
		in, out statedb.RWTable[*concw.Row]
		h       *hive.Hive
		stopped = make(chan struct{})
		calls   atomic.Int64
	)
	log := hivetest.Logger(t, hivetest.LogLevel(slog.LevelError))
	stopAt := map[int]int64{0: -1, 1: 1, 2: 2, 3: 5}[variant]
	transform := func(o *concw.Row, deleted bool) (*concw.Row, statedb.DeriveResult) {
		if calls.Add(1) == stopAt {
			go func() {
				h.Stop(log, context.TODO())
				close(stopped)
			}()
			// Stop cancels the job's context and then waits for the job, which is inside this call: give the cancellation time to
			// happen (if it has not by then, the probe degenerates to a stop between batches, which is also legal)
			time.Sleep(100 * time.Millisecond)
		}
		if deleted {
			return &concw.Row{ID: o.ID}, statedb.DeriveDelete
		}
		return &concw.Row{ID: o.ID, V: o.V + 1000}, statedb.DeriveInsert
	}
	h = hive.New(
		statedb.Cell,
		job.Cell,
		cell.Provide(
			cell.NewSimpleHealth,
			func(r job.Registry, hl cell.Health) job.Group { return r.NewGroup(hl) },
		),
		cell.Module("derive-probe", "derive probe",
			cell.Provide(func(d *statedb.DB) (statedb.Table[*concw.Row], statedb.RWTable[*concw.Row], error) {
				db = d
				ts := concw.NewTables(d, fmt.Sprintf("dp%d-", variant), 2)
				in, out = ts[0], ts[1]
				return in, out, nil
			}),
			cell.Invoke(statedb.Derive[*concw.Row, *concw.Row]("derive-probe", transform)),
		),
	)
	if err := h.Start(log, context.TODO()); err != nil {
		return "derive/start", err.Error()
	}
	write := func(ids ...string) {
		w := db.WriteTxn(in)
		for i, id := range ids {
			in.Insert(w, &concw.Row{ID: id, V: int64(i)})
		}
		w.Commit()
	}
	write("a", "b", "c")
	if variant == 3 {
		time.Sleep(50 * time.Millisecond)
		write("d", "e", "f")
	}
	if variant == 0 {
		time.Sleep(50 * time.Millisecond)
		go func() {
			h.Stop(log, context.TODO())
			close(stopped)
		}()
	}
	select {
	case <-stopped:
	case <-time.After(vkit.Patient(20 * time.Second)):
		return "derive/stop-stuck", fmt.Sprintf("variant %d: stopping the hive did not finish (transform calls so far: %d)", variant, calls.Load())
	}
	if !within(10*time.Second, func() {
		w := db.WriteTxn(out, in)
		out.Insert(w, &concw.Row{ID: "probe"})
		w.Abort()
	}) {
		return "blocked-after-derive-stop", fmt.Sprintf("variant %d: after the Derive job was stopped (transform calls: %d) a WriteTxn over its input and output tables is never granted: the job left its write transaction open", variant, calls.Load())
	}
	return "", ""
}
