package c04

import (
	"testing"

	"verifharness/dbsim"
	"verifharness/vkit"
)

const rule = "random histories of write transactions on 1-3 tables (schemas: unique/non-unique/multi-key part indexes, non-unique NetIPPrefix LPM index, unique LPM index; keys empty, nested, " +
	"containing 00/01/ff; key sets that grow, shrink, become empty, duplicate), with the full query battery (Get/List/Prefix/LowerBound on every index incl. by-revision, All, NumObjects, AnyTable string queries) " +
	"run inside write transactions and on snapshots and compared with a brute-force model; non-trivial = at least 20 query results were compared after at least one commit; distinct = hash of the operation log"

func run(t *testing.T, part string, n int, pick []int) {
	r := vkit.Start(t, "C04", part, "exploration", rule)
	r.Assume("indexers return non-nil key slices (a nil key means 'no key')", "unique secondary keys are kept unique by the generator", "LPM Get/List are asked with full-length keys and stored prefixes only",
		"result-sequence oracle: set equality, no object more often than it has matching keys, ascending (index key, primary key) assignment exists")
	r.Require("query_checks", "commits")
	r.ParallelCases(n, vkit.Workers(), func(i int) {
		dbsim.RunPlain(r, i, dbsim.Opts{Tables: 2, Txns: 14, MaxOps: 8, ProbesPerIndex: 6, AnyTable: true, AbortPct: 15, SchemaPick: pick, Remote: i%4 == 0,
			Report: map[string]bool{"query": true, "abort": true}},
			func(s *dbsim.Sim) bool { return s.QueryChecks() >= 20 && s.Commits() > 0 })
	})
	r.Finish()
}

func TestVerif_Battery(t *testing.T)    { run(t, "battery", vkit.N(2000, 100000), nil) }
func TestVerif_BatteryLPM(t *testing.T) { run(t, "battery-lpm", vkit.N(800, 40000), []int{1, 3}) }
func TestVerif_BatteryLongKeys(t *testing.T) {
	run(t, "battery-longkeys", vkit.N(400, 20000), []int{5})
}

// Wide fan-out: ids under one prefix grow past and shrink below every radix node size (4/5, 16/17, 48/49) with the prefix key itself present.
func TestVerif_BatteryWide(t *testing.T) {
	r := vkit.Start(t, "C04", "battery-wide", "exploration", rule)
	r.Require("query_checks", "commits")
	r.ParallelCases(vkit.N(500, 25000), vkit.Workers(), func(i int) {
		dbsim.RunPlain(r, i, dbsim.Opts{Tables: 1, Txns: 45, MaxOps: 24, ProbesPerIndex: 3, AbortPct: 10, SchemaPick: []int{4},
			Report: map[string]bool{"query": true, "abort": true}},
			func(s *dbsim.Sim) bool { return s.QueryChecks() >= 20 && s.Commits() > 0 })
	})
	r.Finish()
}
