package c04

import (
	"fmt"
	"slices"
	"sort"
	"strings"
	"testing"

	"github.com/cilium/statedb"
	"github.com/cilium/statedb/index"
	"github.com/cilium/statedb/part"

	"verifharness/vkit"
)

// Tables whose indexers are built from the library's own key encoders and key-set helpers (index.String, StringSlice,
// StringerSlice, StringMap, Seq, Set), as applications write them - the dbsim schemas build their key sets by hand from
// non-nil byte slices, so what the helpers hand to the table (e.g. the key of the empty string) is only seen here.

type eobj struct {
	ID     string
	Tags   []string          // index.StringSlice
	Names  []ename           // index.StringerSlice
	Labels map[string]string // index.StringMap
	Set    part.Set[string]  // index.Set
	Nums   []uint32          // index.Seq(index.Uint32, ...)
	N      int
}

type ename string

func (e ename) String() string { return string(e) }

func (o *eobj) TableHeader() []string { return []string{"ID", "N"} }
func (o *eobj) TableRow() []string    { return []string{o.ID, fmt.Sprint(o.N)} }

var (
	eID     = statedb.Index[*eobj, string]{Name: "id", FromObject: func(o *eobj) index.KeySet { return index.NewKeySet(index.String(o.ID)) }, FromKey: index.String, FromString: index.FromString, Unique: true}
	eTags   = statedb.Index[*eobj, string]{Name: "tags", FromObject: func(o *eobj) index.KeySet { return index.StringSlice(o.Tags) }, FromKey: index.String, FromString: index.FromString}
	eNames  = statedb.Index[*eobj, ename]{Name: "names", FromObject: func(o *eobj) index.KeySet { return index.StringerSlice(o.Names) }, FromKey: index.Stringer[ename]}
	eLabels = statedb.Index[*eobj, string]{Name: "labels", FromObject: func(o *eobj) index.KeySet { return index.StringMap(o.Labels) }, FromKey: index.String, FromString: index.FromString}
	eSet    = statedb.Index[*eobj, string]{Name: "set", FromObject: func(o *eobj) index.KeySet { return index.Set(o.Set) }, FromKey: index.String, FromString: index.FromString}
	eNums   = statedb.Index[*eobj, uint32]{Name: "nums", FromObject: func(o *eobj) index.KeySet { return index.Seq(index.Uint32, slices.Values(o.Nums)) }, FromKey: index.Uint32}
)

var epool = []string{"", "a", "b", "ab", "a\x00", "\x00", "\xff", "ba"}

func TestVerif_EncoderKeys(t *testing.T) {
	r := vkit.Start(t, "C04", "encoder-keys", "exploration", rule+" [encoder-keys] tables indexed through index.String/StringSlice/StringerSlice/StringMap/Set/Seq over strings that include the empty string in every position; "+
		"after every operation (inside the transaction) and after every commit or abort each index is listed for every pool value and compared with a brute-force scan; non-trivial = an object with an empty-string key was queried; distinct = hash of the operation log")
	r.Require("query_checks")
	r.ParallelCases(vkit.N(1500, 60000), vkit.Workers(), func(ci int) {
		rng := r.Rand(ci)
		db := statedb.New()
		tbl, err := statedb.NewTable(db, "enc", eID, eTags, eNames, eLabels, eSet, eNums)
		if err != nil {
			r.Violation("query/encoder-keys/newtable", ci, map[string]any{"message": err.Error()})
			return
		}
		model := map[string]*eobj{}
		var log []string
		sawEmpty := false
		h := vkit.NewHash()
		strs := func() []string {
			var out []string
			for j, n := 0, rng.IntN(4); j < n; j++ {
				out = append(out, epool[rng.IntN(len(epool))])
			}
			return out
		}
		check := func(when string, txn statedb.ReadTxn, m map[string]*eobj) bool {
			ids := make([]string, 0, len(m))
			for id := range m {
				ids = append(ids, id)
			}
			sort.Strings(ids)
			fail := func(idx, q string, got []string, want []string) bool {
				r.Violation("query/encoder-keys/"+idx, ci, map[string]any{"message": fmt.Sprintf("%s: List(%s=%q) yields the objects %q, the table holds %q with that key", when, idx, q, got, want), "history": log})
				return false
			}
			list := func(q statedb.Query[*eobj]) []string {
				var got []string
				for o := range tbl.List(txn, q) {
					got = append(got, o.ID)
				}
				return got
			}
			var all []string
			for o := range tbl.All(txn) {
				all = append(all, o.ID)
			}
			if !slices.Equal(all, ids) || tbl.NumObjects(txn) != len(ids) {
				return fail("id", "*", all, ids)
			}
			for _, v := range epool {
				var wTags, wNames, wLabels, wSet, wID []string
				for _, id := range ids {
					o := m[id]
					if id == v {
						wID = append(wID, id)
					}
					if slices.Contains(o.Tags, v) {
						wTags = append(wTags, id)
					}
					if slices.Contains(o.Names, ename(v)) {
						wNames = append(wNames, id)
					}
					if _, ok := o.Labels[v]; ok {
						wLabels = append(wLabels, id)
					}
					if o.Set.Has(v) {
						wSet = append(wSet, id)
					}
					if v == "" && (len(wTags)+len(wNames)+len(wLabels)+len(wSet)+len(wID) > 0) {
						sawEmpty = true
					}
				}
				r.Count("query_checks", 5)
				if got := list(eID.Query(v)); !slices.Equal(got, wID) {
					return fail("id", v, got, wID)
				}
				if got := list(eTags.Query(v)); !slices.Equal(got, wTags) {
					return fail("tags", v, got, wTags)
				}
				if got := list(eNames.Query(ename(v))); !slices.Equal(got, wNames) {
					return fail("names", v, got, wNames)
				}
				if got := list(eLabels.Query(v)); !slices.Equal(got, wLabels) {
					return fail("labels", v, got, wLabels)
				}
				if got := list(eSet.Query(v)); !slices.Equal(got, wSet) {
					return fail("set", v, got, wSet)
				}
			}
			for n := uint32(0); n < 3; n++ {
				var want []string
				for _, id := range ids {
					if slices.Contains(m[id].Nums, n) {
						want = append(want, id)
					}
				}
				r.Count("query_checks", 1)
				if got := list(eNums.Query(n)); !slices.Equal(got, want) {
					return fail("nums", fmt.Sprint(n), got, want)
				}
			}
			return true
		}
		n := 0
		for ti := 0; ti < 8; ti++ {
			wtxn := db.WriteTxn(tbl)
			working := map[string]*eobj{}
			for k, v := range model {
				working[k] = v
			}
			for oi, nops := 0, 1+rng.IntN(5); oi < nops; oi++ {
				id := epool[rng.IntN(len(epool))]
				if rng.IntN(4) == 0 {
					_, had, _ := tbl.Delete(wtxn, &eobj{ID: id})
					if _, ok := working[id]; ok != had {
						r.Violation("query/encoder-keys/delete", ci, map[string]any{"message": fmt.Sprintf("Delete(%q) reports had=%v, the table held it: %v", id, had, ok), "history": log})
						wtxn.Abort()
						return
					}
					delete(working, id)
					log = append(log, fmt.Sprintf("t%d Delete(%q)", ti, id))
				} else {
					n++
					o := &eobj{ID: id, Tags: strs(), N: n, Labels: map[string]string{}, Set: part.NewSet(strs()...)}
					for _, s := range strs() {
						o.Names = append(o.Names, ename(s))
					}
					for _, s := range strs() {
						o.Labels[s] = "x"
					}
					for j, k := 0, rng.IntN(3); j < k; j++ {
						o.Nums = append(o.Nums, uint32(rng.IntN(3)))
					}
					if _, _, err := tbl.Insert(wtxn, o); err != nil {
						r.Violation("query/encoder-keys/insert", ci, map[string]any{"message": err.Error(), "history": log})
						wtxn.Abort()
						return
					}
					working[id] = o
					log = append(log, fmt.Sprintf("t%d Insert({id=%q tags=%q names=%q labels=%q set=%q nums=%v})", ti, id, o.Tags, o.Names, slices.Sorted(func(y func(string) bool) {
						for k := range o.Labels {
							if !y(k) {
								return
							}
						}
					}), slices.Collect(o.Set.All()), o.Nums))
				}
				h.Str(log[len(log)-1])
				if !check(fmt.Sprintf("t%d in the transaction after %s", ti, log[len(log)-1]), wtxn, working) {
					wtxn.Abort()
					return
				}
			}
			if rng.IntN(6) == 0 {
				wtxn.Abort()
				log = append(log, fmt.Sprintf("t%d Abort", ti))
			} else {
				wtxn.Commit()
				model = working
				log = append(log, fmt.Sprintf("t%d Commit", ti))
			}
			if !check(fmt.Sprintf("after %s", log[len(log)-1]), db.ReadTxn(), model) {
				return
			}
		}
		r.Case(h.Sum(), sawEmpty)
		if r.WantSample() {
			r.Sample(map[string]any{"case": ci, "history": strings.Join(log[:min(len(log), 12)], "; ")})
		}
	})
	r.Finish()
}
