// Package recsim runs the statedb reconciler (through hive's job group) inside a testing/synctest bubble against a
// simulated target and monitors convergence (C14), status write-back (C15) and retry pacing / WaitUntilReconciled (C16).
package recsim

import (
	"context"
	"errors"
	"fmt"
	"iter"
	"log/slog"
	"math/rand/v2"
	"os"
	"runtime"
	"sort"
	"strconv"
	"strings"
	"sync"
	"sync/atomic"
	"testing"
	"testing/synctest"
	"time"

	"github.com/cilium/hive"
	"github.com/cilium/hive/cell"
	"github.com/cilium/hive/hivetest"
	"github.com/cilium/hive/job"
	"github.com/cilium/statedb"
	"github.com/cilium/statedb/index"
	"github.com/cilium/statedb/reconciler"
	"golang.org/x/time/rate"

	"verifharness/vkit"
)

// RObj is the reconciled object.
type RObj struct {
	ID       uint64
	Payload  uint64 // unique per user write
	Statuses reconciler.StatusSet
}

func (o *RObj) TableHeader() []string { return []string{"ID", "Payload", "Status"} }
func (o *RObj) TableRow() []string {
	return []string{fmt.Sprint(o.ID), fmt.Sprint(o.Payload), o.Statuses.String()}
}
func (o *RObj) Clone() *RObj { c := *o; return &c }

var idIndex = statedb.Index[*RObj, uint64]{
	Name:       "id",
	FromObject: func(o *RObj) index.KeySet { return index.NewKeySet(index.Uint64(o.ID)) },
	FromKey:    index.Uint64,
	FromString: index.Uint64String,
	Unique:     true,
}

// Config of one run.
type Config struct {
	Batch      bool
	RoundSize  int
	LimiterMS  int // 0 = unlimited
	BackoffMin time.Duration
	BackoffMax time.Duration
	Refresh    bool
	Pruning    bool
	Pacing     bool // instantaneous operations, no injected writes: waits are exact
	Streak     int  // directed pacing run: one object whose Update fails this many times in a row (large backoffs), then succeeds
	CopySetter bool // SetObjectStatus returns a modified copy and leaves its argument alone (legal: the reconciler uses the returned object)
	HoldLock   bool // some user transactions keep the table locked for a while of virtual time (needs the hook gate: one run at a time)
	Extra      int  // further real reconcilers ("r3".."r6": own status slot, own target, own failures) on the same table
	Keys       int
	Phases     int
	Report     map[string]bool // conv, status, pacing
}

// Attempt is one call of an operation.
type Attempt struct {
	Seq     int64         `json:"seq"`
	At      time.Duration `json:"at"`
	End     time.Duration `json:"end"`
	Op      string        `json:"op"`
	ID      uint64        `json:"id"`
	Payload uint64        `json:"payload"`
	Rev     uint64        `json:"rev"`
	Kind    string        `json:"status_kind"`
	OK      bool          `json:"ok"`
	Batch   bool          `json:"batch"`
}

type userWrite struct {
	Seq     int64
	At      time.Duration
	ID      uint64
	Payload uint64 // 0 = delete
	Rev     uint64
	Where   string
}

type sim struct {
	r     *vkit.Run
	idx   int
	rng   *rand.Rand // main goroutine
	opRng *rand.Rand // reconcile goroutine (operations and metrics callbacks)
	cfg   Config

	db    *statedb.DB
	table statedb.RWTable[*RObj]
	rec   reconciler.Reconciler[*RObj]
	t0    time.Time

	mu          sync.Mutex
	target      map[uint64]uint64 // simulated target: id -> payload
	attempts    []Attempt
	writes      []userWrite
	touches     []userWrite       // status-only writes by the second reconciler
	model       map[uint64]uint64 // id -> payload of the latest user write (absent = deleted)
	modelRev    map[uint64]uint64 // id -> revision of the latest user write
	r2done      map[uint64]uint64 // id -> payload for which the second reconciler set Done
	extra       []*extraRec       // further real reconcilers
	waiters     *waiterSet // not a sync.WaitGroup: synctest (Go 1.25.0) remembers the bubble of a WaitGroup by address and twice reported one as used from two bubbles after its memory had been reused by a later run
	spinAtStore atomic.Bool       // the next commit of the main goroutine triggers a reconciler round between its root store and its notifications
	logMu       sync.Mutex
	gateMu      sync.Mutex
	gate        chan struct{}   // non-nil while a user transaction holds the table lock across virtual time
	inflight    map[uint64]bool // goroutines between wtxn.beforeLock and wtxn.afterLock (by goroutine id: a goroutine that passed
	// beforeLock before the hook was installed must not be counted down)
	mainGID      uint64
	holds        int
	bound        time.Duration
	streakLen    int
	windowRounds int
	everSeen     map[uint64]bool // ids the user has ever written
	unset        map[uint64]bool // ids whose current version was written with the zero status for the first reconciler
	final        map[uint64]reconciler.Status // ids (subset of unset) whose current version the user wrote with a final Done status over a version the reconciler knows
	roundEnds    []time.Duration // virtual times of round ends (metrics callback, under mu)
	wmZero       int
	nextPay      uint64
	seq          int64 // event sequence (under mu)
	failProb     int   // percent
	injectPct    int
	initDone     bool
	initAt       time.Duration
	prunes       int
	log          []string
	fp           *vkit.Hash64
	failed       atomic.Bool
	inOp         bool
	waits        int
	wmChecks     int
	convCheck    int
}

// nextSeq must be called with mu held.
func (s *sim) nextSeq() int64 { s.seq++; return s.seq }

func (s *sim) now() time.Duration { return time.Since(s.t0) }

// logf is called from the main goroutine, the reconcilers' goroutines and the waiters.
func (s *sim) logf(f string, a ...any) {
	line := fmt.Sprintf("%8.3fms ", float64(s.now())/1e6) + fmt.Sprintf(f, a...)
	s.logMu.Lock()
	s.log = append(s.log, line)
	s.fp.Str(fmt.Sprintf(f, a...))
	s.logMu.Unlock()
}

func (s *sim) violate(class, key, f string, a ...any) {
	if !s.failed.CompareAndSwap(false, true) {
		return
	}
	if !s.cfg.Report[class] && !s.cfg.Report[class+"/"+key] {
		return
	}
	s.logMu.Lock()
	tail := append([]string(nil), s.log...)
	s.logMu.Unlock()
	if len(tail) > 300 {
		tail = tail[len(tail)-300:]
	}
	s.r.Violation(class+"/"+key, s.idx, map[string]any{"message": fmt.Sprintf(f, a...), "config": fmt.Sprintf("%+v", s.cfg), "log": tail})
}

const rname = "r1"

func getStatus(o *RObj) reconciler.Status { return o.Statuses.Get(rname) }
func setStatus(o *RObj, st reconciler.Status) *RObj {
	o.Statuses = o.Statuses.Set(rname, st)
	return o
}

// ---- user writes (may be called from inside operations) ----

func (s *sim) userWrite(where string, rng *rand.Rand) {
	id := uint64(1 + rng.IntN(s.cfg.Keys))
	kind := rng.IntN(10)
	hold := s.cfg.HoldLock && where == "main" && rng.IntN(3) == 0
	if hold {
		s.openGate()
		defer s.closeGate()
	}
	w := s.db.WriteTxn(s.table)
	if hold {
		// everybody else who wants the table now waits at the gate (a channel: durably blocked, so virtual time moves on)
		d := time.Duration(1+rng.IntN(400)) * time.Millisecond
		s.logf("user %s: holds the table lock for %v", where, d)
		time.Sleep(d)
		s.holds++
	}
	cur, _, exists := s.table.Get(w, idIndex.Query(id))
	switch {
	case kind < 6 || !exists && kind < 8:
		s.nextPay++
		o := &RObj{ID: id, Payload: s.nextPay}
		if exists {
			o.Statuses = cur.Statuses.Pending()
		} else {
			o.Statuses = reconciler.NewStatusSet()
		}
		unset, isFinal := false, false
		var finalStatus reconciler.Status
		if !s.cfg.Pacing {
			switch rng.IntN(24) {
			case 0, 1:
				// new contents marked for a forced refresh instead of pending (StatusRefreshing is public API for this)
				o.Statuses = o.Statuses.Set(rname, reconciler.StatusRefreshing())
				for _, x := range s.extra {
					o.Statuses = o.Statuses.Set(x.name, reconciler.StatusRefreshing())
				}
				where += " (refreshing)"
			case 2:
				// an object the first reconciler was never asked to reconcile: its status is the zero Status (neither pending nor
				// refreshing), so it must never be passed to Update and its status must be left alone. Only for keys the reconciler
				// has not met yet: writing a non-pending status over a version it is working on is outside its contract (it would
				// neither reconcile the new version nor clear the old one's retry)
				s.mu.Lock()
				_, known := s.everSeen[id]
				s.mu.Unlock()
				if !exists && !known {
					o.Statuses = o.Statuses.Set(rname, reconciler.Status{})
					unset = true
					where += " (status unset)"
				}
			case 3:
				// new contents that the user declares already reconciled (status Done, not pending) over a version the reconciler
				// may be working on or retrying: the reconciler must leave this version and its status exactly as written - the
				// result of an operation (or retry) on the old version is stale, and a version that is not pending is not updated.
				// What the target ends up holding is not judged for such an id (the user took it out of reconciliation).
				if exists && !s.cfg.Refresh && s.cfg.Extra == 0 {
					finalStatus = reconciler.StatusDone()
					o.Statuses = o.Statuses.Set(rname, finalStatus)
					unset, isFinal = true, true
					where += " (status Done written by the user)"
				}
			}
		}
		s.table.Insert(w, o)
		rev := s.table.Revision(w)
		// the model is updated while the table lock is held so that concurrent writers are ordered like their commits
		s.mu.Lock()
		s.model[id], s.modelRev[id] = o.Payload, rev
		s.everSeen[id] = true
		if unset {
			s.unset[id] = true
		} else {
			delete(s.unset, id)
		delete(s.final, id)
			delete(s.final, id)
		}
		if isFinal {
			s.final[id] = finalStatus
		} else {
			delete(s.final, id)
		}
		delete(s.r2done, id)
		s.writes = append(s.writes, userWrite{s.nextSeq(), s.now(), id, o.Payload, rev, where})
		s.mu.Unlock()
		if s.cfg.HoldLock && strings.HasPrefix(where, "main") && rng.IntN(4) == 0 {
			s.startWaiter(rev)
			s.spinAtStore.Store(true)
		}
		w.Commit()
		s.logf("user %s: upsert id=%d payload=%d rev=%d", where, id, o.Payload, rev)
	case kind < 8:
		s.table.Delete(w, cur)
		rev := s.table.Revision(w)
		if rng.IntN(3) == 0 {
			// delete + re-insert in one transaction
			s.nextPay++
			o := &RObj{ID: id, Payload: s.nextPay, Statuses: reconciler.NewStatusSet()}
			s.table.Insert(w, o)
			rev = s.table.Revision(w)
			s.mu.Lock()
			s.model[id], s.modelRev[id] = o.Payload, rev
			delete(s.r2done, id)
			delete(s.unset, id)
		delete(s.final, id)
			delete(s.final, id)
			s.writes = append(s.writes, userWrite{s.nextSeq(), s.now(), id, o.Payload, rev, where})
			s.mu.Unlock()
			w.Commit()
			s.logf("user %s: delete+reinsert id=%d payload=%d rev=%d", where, id, o.Payload, rev)
			return
		}
		s.mu.Lock()
		delete(s.model, id)
		delete(s.modelRev, id)
		delete(s.r2done, id)
		delete(s.unset, id)
		delete(s.final, id)
		s.writes = append(s.writes, userWrite{s.nextSeq(), s.now(), id, 0, rev, where})
		s.mu.Unlock()
		w.Commit()
		s.logf("user %s: delete id=%d rev=%d", where, id, rev)
	default:
		if !exists {
			w.Abort()
			return
		}
		// status-only change by a second reconciler
		o := cur.Clone()
		o.Statuses = o.Statuses.Set("r2", reconciler.StatusDone())
		s.table.Insert(w, o)
		s.mu.Lock()
		s.r2done[id] = cur.Payload
		s.touches = append(s.touches, userWrite{Seq: s.nextSeq(), At: s.now(), ID: id, Rev: s.table.Revision(w)})
		if _, ok := s.modelRev[id]; ok {
			s.modelRev[id] = s.table.Revision(w) // a status-only write is also a change of the object (new revision)
		}
		s.mu.Unlock()
		w.Commit()
		s.logf("user %s: status-only (r2 Done) id=%d payload=%d", where, id, cur.Payload)
	}
}

// ---- gate: lets a user transaction keep the table lock across virtual time ----
//
// A goroutine blocked on a sync.Mutex is not durably blocked, so the bubble's clock would stand still while anybody waits for
// the table lock held by a sleeping transaction. The hook at wtxn.beforeLock parks every other requester on a channel instead.

func goid() uint64 {
	var buf [64]byte
	n := runtime.Stack(buf[:], false)
	f := strings.Fields(string(buf[:n]))
	if len(f) > 1 {
		id, _ := strconv.ParseUint(f[1], 10, 64)
		return id
	}
	return 0
}

func (s *sim) hook(point, handle string) {
	switch point {
	case "wtxn.beforeLock":
		id := goid()
		if id == s.mainGID {
			return
		}
		for {
			s.gateMu.Lock()
			g := s.gate
			if g == nil {
				s.inflight[id] = true
				s.gateMu.Unlock()
				return
			}
			s.gateMu.Unlock()
			<-g
		}
	case "commit.afterRootStore":
		// the new root is published, the watch channels are not closed yet: a round that starts now (here: an external prune
		// trigger) sees the commit in its snapshot but is told there are no changes
		if goid() == s.mainGID && s.spinAtStore.CompareAndSwap(true, false) {
			s.rec.Prune()
			for k := 0; k < 4000; k++ {
				runtime.Gosched()
			}
			s.windowRounds++
		}
	case "wtxn.afterLock":
		id := goid()
		if id == s.mainGID {
			return
		}
		s.gateMu.Lock()
		delete(s.inflight, id)
		s.gateMu.Unlock()
	}
}

func (s *sim) openGate() {
	s.gateMu.Lock()
	s.gate = make(chan struct{})
	s.gateMu.Unlock()
	for {
		s.gateMu.Lock()
		n := len(s.inflight)
		s.gateMu.Unlock()
		if n == 0 {
			return
		}
		runtime.Gosched()
	}
}

func (s *sim) closeGate() {
	s.gateMu.Lock()
	close(s.gate)
	s.gate = nil
	s.gateMu.Unlock()
}

// ---- operations (simulated target) ----

type ops struct{ s *sim }

func (o *ops) before(op string, obj *RObj, rev uint64, batch bool) (Attempt, bool) {
	s := o.s
	a := Attempt{At: s.now(), Op: op, ID: obj.ID, Payload: obj.Payload, Rev: rev, Kind: getStatus(obj).Kind.String(), Batch: batch}
	s.mu.Lock()
	a.Seq = s.nextSeq()
	fail := s.opRng.IntN(100) < s.failProb
	dur := time.Duration(0)
	if !s.cfg.Pacing {
		dur = []time.Duration{0, 0, time.Millisecond, 30 * time.Millisecond}[s.opRng.IntN(4)]
	}
	inject := !s.cfg.Pacing && s.opRng.IntN(100) < s.injectPct
	// C15: Update only for versions that are pending/refreshing, or retries of a failed attempt on that version
	if op == "update" {
		k := getStatus(obj).Kind
		if k != reconciler.StatusKindPending && k != reconciler.StatusKindRefreshing {
			retry := false
			for _, p := range s.attempts {
				if p.Op == "update" && p.ID == obj.ID && p.Payload == obj.Payload && !p.OK {
					retry = true
				}
			}
			if !retry {
				s.mu.Unlock()
				s.violate("status", "update-of-non-pending", "Update called for id=%d payload=%d whose status is %s and which has no failed attempt", obj.ID, obj.Payload, k)
				s.mu.Lock()
			}
		}
	}
	s.mu.Unlock()
	if dur > 0 {
		time.Sleep(dur)
	}
	if inject {
		s.userWrite("inside-"+op, s.opRng)
	}
	return a, fail
}

func (o *ops) after(a Attempt, fail bool) error {
	s := o.s
	a.End, a.OK = s.now(), !fail
	s.mu.Lock()
	if !fail {
		if a.Op == "update" {
			s.target[a.ID] = a.Payload
		} else {
			delete(s.target, a.ID)
		}
	}
	s.attempts = append(s.attempts, a)
	s.mu.Unlock()
	s.logf("op %s id=%d payload=%d rev=%d status=%s ok=%v", a.Op, a.ID, a.Payload, a.Rev, a.Kind, a.OK)
	if os.Getenv("VERIF_DEBUG") != "" {
		rt := s.db.ReadTxn()
		if o, rev, ok := s.table.Get(rt, idIndex.Query(a.ID)); ok {
			s.logf("   table now: payload=%d rev=%d r1=%s(id %d) ", o.Payload, rev, getStatus(o).Kind, getStatus(o).ID)
		}
	}
	if fail {
		// the error an operation returns says nothing about the reconciler's own state: a failure is retried whatever it wraps
		switch a.Seq % 5 {
		case 0:
			return fmt.Errorf("injected failure: %w", context.Canceled)
		case 1:
			return fmt.Errorf("injected failure: %w", context.DeadlineExceeded)
		}
		return errors.New("injected failure")
	}
	return nil
}

func (o *ops) Update(ctx context.Context, txn statedb.ReadTxn, rev statedb.Revision, obj *RObj) error {
	a, fail := o.before("update", obj, rev, false)
	return o.after(a, fail)
}

func (o *ops) Delete(ctx context.Context, txn statedb.ReadTxn, rev statedb.Revision, obj *RObj) error {
	a, fail := o.before("delete", obj, rev, false)
	return o.after(a, fail)
}

func (o *ops) Prune(ctx context.Context, txn statedb.ReadTxn, objs iter.Seq2[*RObj, statedb.Revision]) error {
	s := o.s
	s.mu.Lock()
	s.prunes++
	initDone := s.initDone
	s.mu.Unlock()
	// only once the table is initialized, always with the complete contents of the snapshot
	if ok, _ := s.table.Initialized(txn); !ok || !initDone {
		s.violate("status", "prune-before-initialized", "Prune called although the table's initializer has not been committed done (Initialized(txn)=%v)", ok)
	}
	var got, want []uint64
	for o := range objs {
		got = append(got, o.ID<<32|o.Payload)
	}
	for o := range s.table.All(txn) {
		want = append(want, o.ID<<32|o.Payload)
	}
	if fmt.Sprint(got) != fmt.Sprint(want) {
		s.violate("status", "prune-incomplete", "Prune was given %d objects, the snapshot holds %d", len(got), len(want))
	}
	s.logf("op prune objects=%d", len(got))
	// pruning the simulated target: remove everything not in the desired set
	s.mu.Lock()
	keep := map[uint64]bool{}
	for _, g := range got {
		keep[g>>32] = true
	}
	for id := range s.target {
		if !keep[id] {
			delete(s.target, id)
		}
	}
	s.mu.Unlock()
	return nil
}

// extraRec is a further real reconciler of the same table (Config.Extra): own status slot in the StatusSet, own simulated
// target, failures with the same probability as the first, durations 0/1/30 ms, no injected writes.
type extraRec struct {
	s        *sim
	name     string
	target   map[uint64]uint64
	attempts []Attempt
	rng      *rand.Rand
}

func (o *extraRec) do(op string, obj *RObj, rev uint64) error {
	s := o.s
	a := Attempt{At: s.now(), Op: op, ID: obj.ID, Payload: obj.Payload, Rev: rev, Kind: obj.Statuses.Get(o.name).Kind.String()}
	s.mu.Lock()
	a.Seq = s.nextSeq()
	fail := o.rng.IntN(100) < s.failProb
	dur := []time.Duration{0, 0, time.Millisecond, 30 * time.Millisecond}[o.rng.IntN(4)]
	s.mu.Unlock()
	if dur > 0 {
		time.Sleep(dur)
	}
	a.End, a.OK = s.now(), !fail
	s.mu.Lock()
	if !fail {
		if op == "update" {
			o.target[a.ID] = a.Payload
		} else {
			delete(o.target, a.ID)
		}
	}
	o.attempts = append(o.attempts, a)
	s.mu.Unlock()
	s.logf("%s op %s id=%d payload=%d rev=%d status=%s ok=%v", o.name, a.Op, a.ID, a.Payload, a.Rev, a.Kind, a.OK)
	if fail {
		return errors.New("injected failure (" + o.name + ")")
	}
	return nil
}

func (o *extraRec) Update(ctx context.Context, txn statedb.ReadTxn, rev statedb.Revision, obj *RObj) error {
	return o.do("update", obj, rev)
}
func (o *extraRec) Delete(ctx context.Context, txn statedb.ReadTxn, rev statedb.Revision, obj *RObj) error {
	return o.do("delete", obj, rev)
}
func (o *extraRec) Prune(ctx context.Context, txn statedb.ReadTxn, objs iter.Seq2[*RObj, statedb.Revision]) error {
	return nil
}
func (o *extraRec) getStatus(obj *RObj) reconciler.Status { return obj.Statuses.Get(o.name) }
func (o *extraRec) setStatus(obj *RObj, st reconciler.Status) *RObj {
	obj.Statuses = obj.Statuses.Set(o.name, st)
	return obj
}

// checkExtra: the same obligations for the further real reconcilers. final = failures and changes stopped and the bound elapsed.
func (s *sim) checkExtra(what string, final bool) {
	for _, x := range s.extra {
		if s.failed.Load() {
			return
		}
		s.checkExtraOne(x, what, final)
	}
}

func (s *sim) checkExtraOne(x *extraRec, what string, final bool) {
	rt := s.db.ReadTxn()
	s.mu.Lock()
	target := map[uint64]uint64{}
	for k, v := range x.target {
		target[k] = v
	}
	model := map[uint64]uint64{}
	for k, v := range s.model {
		model[k] = v
	}
	attempts := append([]Attempt(nil), x.attempts...)
	s.mu.Unlock()
	for o := range s.table.All(rt) {
		st := x.getStatus(o)
		if st.Kind == reconciler.StatusKindDone {
			if tp, ok := target[o.ID]; !ok || tp != o.Payload {
				s.violate("conv", "other-done-but-target-differs", "%s: object id=%d payload=%d has status Done for reconciler %s but its target holds payload %d (present=%v)", what, o.ID, o.Payload, x.name, tp, ok)
				return
			}
		}
		if st.Kind == reconciler.StatusKindDone || st.Kind == reconciler.StatusKindError {
			okAttempt := false
			for _, a := range attempts {
				if a.Op == "update" && a.ID == o.ID && a.Payload == o.Payload && a.OK == (st.Kind == reconciler.StatusKindDone) {
					okAttempt = true
				}
			}
			if !okAttempt {
				s.violate("status", "other-status-misreported", "%s: object id=%d payload=%d has status %s for reconciler %s, which issued no Update with that outcome for this version", what, o.ID, o.Payload, st.Kind, x.name)
				return
			}
		}
		if final && st.Kind != reconciler.StatusKindDone {
			s.violate("conv", "other-not-done", "%s: object id=%d payload=%d has status %s for reconciler %s after failures and changes stopped and the bound elapsed", what, o.ID, o.Payload, st.Kind, x.name)
			return
		}
	}
	if !final {
		return
	}
	for id, p := range model {
		if target[id] != p {
			s.violate("conv", "other-target-differs", "%s: the target of reconciler %s has payload %d for id=%d, table has %d", what, x.name, target[id], id, p)
			return
		}
	}
	for id, p := range target {
		if _, ok := model[id]; !ok {
			s.violate("conv", "other-target-has-removed-object", "%s: the target of reconciler %s still holds id=%d payload=%d although it was removed from the table", what, x.name, id, p)
			return
		}
	}
}

type batchOps struct{ o *ops }

func (b *batchOps) UpdateBatch(ctx context.Context, txn statedb.ReadTxn, batch []reconciler.BatchEntry[*RObj]) {
	for i := range batch {
		a, fail := b.o.before("update", batch[i].Object, batch[i].Revision, true)
		batch[i].Result = b.o.after(a, fail)
	}
}

func (b *batchOps) DeleteBatch(ctx context.Context, txn statedb.ReadTxn, batch []reconciler.BatchEntry[*RObj]) {
	for i := range batch {
		a, fail := b.o.before("delete", batch[i].Object, batch[i].Revision, true)
		batch[i].Result = b.o.after(a, fail)
	}
}

// metrics: ReconciliationDuration fires after each operation (batch) and before the status commit.
type metrics struct{ s *sim }

func (m *metrics) ReconciliationDuration(moduleID cell.FullModuleID, name, operation string, d time.Duration) {
	s := m.s
	s.mu.Lock()
	inject := !s.cfg.Pacing && s.opRng.IntN(100) < s.injectPct
	s.mu.Unlock()
	if inject {
		s.userWrite("after-"+operation+"-before-status-commit", s.opRng)
	}
}

// ReconciliationErrors is called once at the end of every round, just before the round's progress (revision, low watermark) is
// published: a round boundary in the event log.
func (m *metrics) ReconciliationErrors(cell.FullModuleID, string, int, int) {
	s := m.s
	s.mu.Lock()
	s.nextSeq()
	s.roundEnds = append(s.roundEnds, s.now())
	s.mu.Unlock()
}
func (m *metrics) PruneError(cell.FullModuleID, string, error)            {}
func (m *metrics) PruneDuration(cell.FullModuleID, string, time.Duration) {}

// ---- checks ----

// failedSet returns the keys whose latest attempt failed and which have not been written by the user since, with the
// revision argument of that attempt.
func (s *sim) failedSet() map[uint64]uint64 {
	s.mu.Lock()
	defer s.mu.Unlock()
	last := map[uint64]Attempt{}
	for _, a := range s.attempts {
		last[a.ID] = a
	}
	out := map[uint64]uint64{}
	for id, a := range last {
		if a.OK {
			continue
		}
		cur, live := s.model[id]
		// changed since: an update attempt is obsolete once the key has another payload or is gone; a failed delete
		// stays pending until it succeeds or the key is re-inserted
		if a.Op == "update" && live && cur == a.Payload || a.Op == "delete" && !live {
			out[id] = a.Rev
		}
	}
	return out
}

func (s *sim) checkTableAgainstModel(what string) {
	rt := s.db.ReadTxn()
	s.mu.Lock()
	model := map[uint64]uint64{}
	for k, v := range s.model {
		model[k] = v
	}
	r2 := map[uint64]uint64{}
	for k, v := range s.r2done {
		r2[k] = v
	}
	attempts := append([]Attempt(nil), s.attempts...)
	final := map[uint64]reconciler.Status{}
	for k, v := range s.final {
		final[k] = v
	}
	s.mu.Unlock()
	seen := map[uint64]bool{}
	for o := range s.table.All(rt) {
		seen[o.ID] = true
		want, ok := model[o.ID]
		if !ok {
			s.violate("status", "deleted-object-recreated", "%s: object id=%d payload=%d is in the table although the user deleted it", what, o.ID, o.Payload)
			return
		}
		if o.Payload != want {
			s.violate("status", "object-clobbered", "%s: object id=%d has payload %d, latest user write is %d", what, o.ID, o.Payload, want)
			return
		}
		st := getStatus(o)
		if fs, ok := final[o.ID]; ok {
			// a version the user wrote as already reconciled: status exactly as written, nothing else is judged
			if st.Kind != fs.Kind || !st.UpdatedAt.Equal(fs.UpdatedAt) || st.Error != nil {
				s.violate("status", "user-final-status-overwritten", "%s: object id=%d payload=%d was written by the user with status %v and now has status %v", what, o.ID, o.Payload, fs, st)
				return
			}
			continue
		}
		// C14 at every quiescent point: an object reported Done must be in the target with exactly its current contents
		if st.Kind == reconciler.StatusKindDone {
			s.mu.Lock()
			tp, inTarget := s.target[o.ID]
			s.mu.Unlock()
			if !inTarget || tp != o.Payload {
				s.violate("conv", "done-but-target-differs", "%s: object id=%d payload=%d has status Done but the target holds payload %d (present=%v): the last successful Update was not made with its latest contents", what, o.ID, o.Payload, tp, inTarget)
				return
			}
		}
		if st.Kind == reconciler.StatusKindDone || st.Kind == reconciler.StatusKindError {
			okAttempt := false
			for _, a := range attempts {
				if a.Op == "update" && a.ID == o.ID && a.Payload == o.Payload && a.OK == (st.Kind == reconciler.StatusKindDone) {
					okAttempt = true
				}
			}
			if !okAttempt {
				s.violate("status", "status-misreported", "%s: object id=%d payload=%d has status %s but no Update with that outcome was issued for this version", what, o.ID, o.Payload, st.Kind)
				return
			}
		}
		if p, ok := r2[o.ID]; ok && p == o.Payload {
			if o.Statuses.Get("r2").Kind != reconciler.StatusKindDone {
				s.violate("status", "other-status-lost", "%s: object id=%d payload=%d lost the status written by the second reconciler", what, o.ID, o.Payload)
				return
			}
		}
	}
	for id, p := range model {
		if !seen[id] {
			s.violate("status", "object-lost", "%s: object id=%d payload=%d written by the user is missing from the table", what, id, p)
			return
		}
	}
}

func (s *sim) checkWatermark(what string) {
	ctx, cancel := context.WithCancel(context.Background())
	_, wm, err := s.rec.WaitUntilReconciled(ctx, 0)
	cancel()
	if err != nil {
		s.violate("pacing", "wait-error", "%s: WaitUntilReconciled(0) returned %v", what, err)
		return
	}
	f := s.failedSet()
	// a version the user wrote as already reconciled (status Done) over a failing one: whether the old version's retry is still
	// queued depends on whether its failure had been committed before that write - both are legitimate, the value is not judged
	s.mu.Lock()
	lastOK := map[uint64]bool{}
	for _, a := range s.attempts {
		lastOK[a.ID] = a.OK
	}
	ambiguous := false
	for id := range s.final {
		if ok, tried := lastOK[id]; tried && !ok {
			ambiguous = true
		}
	}
	s.mu.Unlock()
	if ambiguous {
		s.r.Count("watermark_unjudged_user_final", 1)
		return
	}
	var want uint64
	for _, rev := range f {
		if want == 0 || rev < want {
			want = rev
		}
	}
	s.wmChecks++
	if wm != want {
		s.violate("pacing", "low-watermark", "%s: reported retry low-watermark %d, model says %d (failed objects awaiting retry: %v)", what, wm, want, f)
	}
}

func (s *sim) convergenceCheck(what string) {
	s.convCheck++
	rt := s.db.ReadTxn()
	s.mu.Lock()
	target := map[uint64]uint64{}
	for k, v := range s.target {
		target[k] = v
	}
	model := map[uint64]uint64{}
	for k, v := range s.model {
		model[k] = v
	}
	attempts := append([]Attempt(nil), s.attempts...)
	s.mu.Unlock()
	unset := map[uint64]bool{}
	final := map[uint64]reconciler.Status{}
	s.mu.Lock()
	for k := range s.unset {
		unset[k] = true
	}
	for k, v := range s.final {
		final[k] = v
	}
	s.mu.Unlock()
	for o := range s.table.All(rt) {
		k := getStatus(o).Kind
		if fs, ok := final[o.ID]; ok {
			if st := getStatus(o); st.Kind != fs.Kind || !st.UpdatedAt.Equal(fs.UpdatedAt) || st.Error != nil {
				s.violate("status", "user-final-status-overwritten", "%s: object id=%d payload=%d was written by the user with status %v and now has status %v", what, o.ID, o.Payload, fs, st)
				return
			}
			continue
		}
		if unset[o.ID] {
			if k != reconciler.StatusKindUnset {
				s.violate("status", "unset-status-overwritten", "%s: object id=%d payload=%d was written with the zero status (not to be reconciled) and now has status %s", what, o.ID, o.Payload, k)
				return
			}
			continue
		}
		if k == reconciler.StatusKindRefreshing && s.cfg.Refresh {
			// periodic refresh in progress (the reconciler itself marked the reconciled object for refresh) - but a marked object
			// is updated within the same bound: nothing fails any more
			if age := time.Since(getStatus(o).UpdatedAt); age > s.bound {
				s.violate("conv", "refreshing-stuck", "%s: object id=%d payload=%d was marked Refreshing %v ago and has not been updated since (bound %v)", what, o.ID, o.Payload, age, s.bound)
				return
			}
			continue
		}
		if k != reconciler.StatusKindDone {
			s.violate("conv", "not-done", "%s: object id=%d payload=%d has status %s after failures and changes stopped and the bound elapsed", what, o.ID, o.Payload, k)
			return
		}
	}
	for id, p := range model {
		if unset[id] {
			continue
		}
		if target[id] != p {
			s.violate("conv", "target-differs", "%s: target has payload %d for id=%d, table has %d (last successful operation is not an Update with the latest contents)", what, target[id], id, p)
			return
		}
	}
	for id, p := range target {
		if _, ok := model[id]; !ok {
			s.violate("conv", "target-has-removed-object", "%s: target still holds id=%d payload=%d although it was removed from the table (last operation is not a successful Delete)", what, id, p)
			return
		}
	}
	// last operation per key
	last := map[uint64]Attempt{}
	for _, a := range attempts {
		last[a.ID] = a
	}
	for id, a := range last {
		if unset[id] {
			continue
		}
		if _, live := model[id]; live {
			if a.Op != "update" || !a.OK || a.Payload != model[id] {
				s.violate("conv", "last-op", "%s: last operation for live id=%d is %s payload=%d ok=%v, want a successful update with payload %d", what, id, a.Op, a.Payload, a.OK, model[id])
				return
			}
		} else if a.Op != "delete" || !a.OK {
			if !s.cfg.Pruning { // with pruning the prune call may have removed it
				s.violate("conv", "last-op", "%s: last operation for removed id=%d is %s ok=%v, want a successful delete", what, id, a.Op, a.OK)
				return
			}
		}
	}
}

// startWaiter: WaitUntilReconciled(rev) in a goroutine of its own; when it returns without error every change up to rev that is
// still the current version of its key must have been attempted, and a zero watermark is judged against the round log.
func (s *sim) startWaiter(rev uint64) {
	cfg := s.cfg
	waiterDone := s.waiters.add()
	go func() {
		defer close(waiterDone)
		ctx, cancel := context.WithTimeout(context.Background(), 30*time.Second)
		defer cancel()
		got, wm, err := s.rec.WaitUntilReconciled(ctx, rev)
		if err != nil {
			return
		}
		s.checkZeroWatermark(wm, got)
		// every change up to rev that is still the current version of its key must have been attempted
		s.mu.Lock()
		defer s.mu.Unlock()
		// with a real second reconciler its status writes move objects to later revisions (as the simulated one's
		// status-only writes do, which modelRev follows): an object whose revision is now above rev is a later change
		cur := map[uint64]uint64{}
		if cfg.Extra > 0 {
			for o, orev := range s.table.All(s.db.ReadTxn()) {
				cur[o.ID] = orev
			}
		}
		for id, mrev := range s.modelRev {
			if mrev > rev || cur[id] > rev || s.unset[id] {
				continue
			}
			attempted := false
			for _, a := range s.attempts {
				if a.ID == id && a.Payload == s.model[id] {
					attempted = true
				}
			}
			if !attempted {
				s.mu.Unlock()
				s.violate("pacing", "wait-returned-early", "WaitUntilReconciled(%d) returned %d without error but the change of id=%d (payload %d, revision %d) was never attempted", rev, got, id, s.model[id], mrev)
				s.mu.Lock()
				return
			}
		}
		s.r.Count("wait_until_reconciled_returns", 1)
	}()
}

// checkZeroWatermark: a low watermark of zero says that no failed object awaits a retry. The value WaitUntilReconciled hands out
// was published by a round that ended at or before the virtual time T of the return. The virtual clock only moves when every
// goroutine of the bubble is blocked, so a round that ended at a virtual time strictly before T had published its value by then,
// and T itself is read reliably by the waiter (it cannot be descheduled across a clock step). Hence: if some round ended strictly
// between the end of a failed attempt and T, the value handed out comes from that round or a later one, and an object that failed
// before it and has been neither retried nor touched since was in the retry queue at its end - zero is wrong. (Rounds of the same
// virtual instant cannot be ordered against the return and are not used. Only judged without further real reconcilers and
// refreshing, whose writes are not in the event log.)
//
// Second rule, by causality instead of time: the pair (revision, watermark) is published together once the changes up to that
// revision have been processed and their failures queued. A failed attempt on a version whose revision is at most the returned
// revision was therefore made before that publication; if the object has been neither retried nor touched since, it was
// awaiting its retry when the pair was published - zero is wrong, whether or not a round boundary lies in between.
func (s *sim) checkZeroWatermark(wm, got uint64) {
	if wm != 0 || s.cfg.Extra > 0 || s.cfg.Refresh {
		return
	}
	T := s.now()
	s.mu.Lock()
	defer s.mu.Unlock()
	s.wmZero++
	last := map[uint64]Attempt{}
	for _, a := range s.attempts {
		last[a.ID] = a
	}
	for id, a := range last {
		if a.OK {
			continue
		}
		between := false
		for _, re := range s.roundEnds {
			between = between || re > a.End && re < T
		}
		covered := a.Rev != 0 && a.Rev <= got
		if !between && !covered {
			continue
		}
		cur, live := s.model[id]
		if !(a.Op == "update" && live && cur == a.Payload || a.Op == "delete" && !live) {
			continue // changed since: the retry was cleared
		}
		touched := false
		for _, w := range s.writes {
			touched = touched || w.ID == id && (w.Seq > a.Seq || w.Rev > a.Rev)
		}
		for _, w := range s.touches {
			touched = touched || w.ID == id && (w.Seq > a.Seq || w.Rev > a.Rev)
		}
		if touched {
			continue
		}
		s.mu.Unlock()
		s.violate("pacing", "low-watermark-zero", "WaitUntilReconciled returned (revision %d) at %.3fms with low watermark 0 although the %s of id=%d (revision %d) failed at %.3fms (a later round ended before the return: %v; the failed version is covered by the returned revision: %v) and the object has neither been retried nor changed since", got, float64(T)/1e6, a.Op, id, a.Rev, float64(a.End)/1e6, between, covered)
		s.mu.Lock()
		return
	}
}

// pacingChecks evaluates the attempt log.
func (s *sim) pacingChecks() {
	s.mu.Lock()
	attempts := append([]Attempt(nil), s.attempts...)
	events := append(append([]userWrite(nil), s.writes...), s.touches...)
	s.mu.Unlock()
	byKey := map[uint64][]Attempt{}
	for _, a := range attempts {
		byKey[a.ID] = append(byKey[a.ID], a)
	}
	min, max := s.cfg.BackoffMin, s.cfg.BackoffMax
	first := min * 2 // first retry waits Duration(1)
	if first > max {
		first = max
	}
	for id, as := range byKey {
		// a failed operation is retried within the maximum backoff (plus a round): the last attempt of a key may only be a
		// failure if the object was changed afterwards (the retry is cleared) or the failure is recent
		if l := as[len(as)-1]; s.cfg.Pacing && !l.OK {
			changed := false
			for _, w := range events {
				changed = changed || w.ID == id && w.Seq > l.Seq
			}
			if age := s.now() - l.End; !changed && age > max+time.Duration(2+s.cfg.LimiterMS)*time.Millisecond+time.Second {
				s.violate("pacing", "retry-too-late", "id=%d: the %s that failed %.3fms ago was never retried, maximum backoff is %v", id, l.Op, float64(age)/1e6, max)
				return
			}
		}
		var prevWait time.Duration
		streak := 0
		for i := 1; i < len(as); i++ {
			p, c := as[i-1], as[i]
			if p.OK {
				streak, prevWait = 0, 0
				continue
			}
			touched := false
			for _, w := range events {
				// A status-only write by the second reconciler between the two attempts: if the failed result could not be
				// committed because of it the object is still pending and is reconciled again at once as a change; if the
				// Error status was already committed the reconciler ignores the write and the retry stays paced. Both are
				// legitimate, so this pair is not judged and the streak becomes unknown.
				// (also a write made before the failed attempt began but after the snapshot it worked on: the attempt was given
				// revision p.Rev, the write produced a later one)
				if w.ID == id && w.Seq < c.Seq && (w.Seq > p.Seq || w.Rev > p.Rev) {
					touched = true
				}
			}
			if p.Payload != c.Payload || p.Op != c.Op {
				streak, prevWait = 0, 0
				continue
			}
			// the refresher marks only objects that are Done: an attempt on a version marked Refreshing right after a failed
			// attempt on the same version (which was not marked so) means a failed object was taken out of its backoff
			if c.Kind == "Refreshing" && p.Kind != "Refreshing" {
				s.violate("pacing", "refresh-of-failed-object", "id=%d payload=%d: attempt on a version marked Refreshing %.3fms after the failed attempt on the same version (status then: %s): the refresher re-marked an object that awaits its retry", id, c.Payload, float64(c.At-p.End)/1e6, p.Kind)
				return
			}
			if touched {
				streak, prevWait = -1, 0
				continue
			}
			wait := c.At - p.End
			s.waits++
			// (with refreshing enabled the refresh loop re-marks objects on its own schedule, which is a change the event log
			// does not see: an immediate new attempt may be a refresh, not a retry, so the lower bound is not judged there)
			if wait < min && !s.cfg.Refresh && s.cfg.Extra == 0 {
				s.violate("pacing", "retry-too-early", "id=%d: retry %.3fms after the failed %s, minimum backoff is %v", id, float64(wait)/1e6, p.Op, min)
				return
			}
			if s.cfg.Pacing {
				slack := time.Duration(2+s.cfg.LimiterMS) * time.Millisecond
				if wait > max+slack {
					s.violate("pacing", "retry-too-late", "id=%d: retry %.3fms after the failure, maximum backoff is %v (+%v slack)", id, float64(wait)/1e6, max, slack)
					return
				}
				if streak > 0 && wait+time.Millisecond < prevWait {
					s.violate("pacing", "backoff-shrinks", "id=%d: wait %.3fms after %.3fms for consecutive failures of the unchanged object", id, float64(wait)/1e6, float64(prevWait)/1e6)
					return
				}
				if streak == 0 && wait > first+slack {
					s.violate("pacing", "backoff-not-reset", "id=%d: first retry after a change/success waited %.3fms, a fresh backoff waits %v", id, float64(wait)/1e6, first)
					return
				}
			}
			prevWait = wait
			if streak < 0 {
				streak = 1 // known again relative to this wait
			} else {
				streak++
			}
		}
	}
}

// Run executes one run.
func Run(t *testing.T, r *vkit.Run, idx int, cfg Config) {
	stop := r.Watchdog(idx, 5*time.Minute, func() any { return fmt.Sprintf("%+v", cfg) })
	defer stop()
	synctest.Test(t, func(t *testing.T) {
		s := &sim{r: r, idx: idx, rng: r.Rand(idx), opRng: r.Rand(idx, 7), cfg: cfg, fp: vkit.NewHash(), target: map[uint64]uint64{}, model: map[uint64]uint64{},
			modelRev: map[uint64]uint64{}, r2done: map[uint64]uint64{}, t0: time.Now(), inflight: map[uint64]bool{}, unset: map[uint64]bool{}, final: map[uint64]reconciler.Status{}, everSeen: map[uint64]bool{}, waiters: &waiterSet{}}
		if cfg.HoldLock {
			// installed before anything of this run can request a table lock
			s.mainGID = goid()
			statedb.SetVerifHook(s.hook)
			defer statedb.SetVerifHook(nil)
		}
		for i := 0; i < cfg.Extra; i++ {
			s.extra = append(s.extra, &extraRec{s: s, name: fmt.Sprintf("r%d", 3+i), target: map[uint64]uint64{}, rng: r.Rand(idx, uint64(8+i))})
		}
		o := &ops{s}
		var bops reconciler.BatchOperations[*RObj]
		if cfg.Batch {
			bops = &batchOps{o}
		}
		var markInit func(statedb.WriteTxn)
		opts := []reconciler.Option{
			reconciler.WithMetrics(&metrics{s}),
			reconciler.WithRetry(cfg.BackoffMin, cfg.BackoffMax),
		}
		lim := rate.NewLimiter(rate.Inf, 1)
		if cfg.LimiterMS > 0 {
			lim = rate.NewLimiter(rate.Every(time.Duration(cfg.LimiterMS)*time.Millisecond), 1)
		}
		opts = append(opts, reconciler.WithRoundLimits(cfg.RoundSize, lim))
		if cfg.Pruning {
			opts = append(opts, reconciler.WithPruning(200*time.Millisecond))
		} else {
			opts = append(opts, reconciler.WithoutPruning())
		}
		if cfg.Refresh {
			opts = append(opts, reconciler.WithRefreshing(300*time.Millisecond, rate.NewLimiter(rate.Inf, 1)))
		}
		h := hive.New(
			statedb.Cell,
			job.Cell,
			cell.Provide(
				cell.NewSimpleHealth,
				func(r job.Registry, h cell.Health) job.Group { return r.NewGroup(h) },
			),
			cell.Invoke(func(db *statedb.DB) (err error) {
				s.db = db
				s.table, err = statedb.NewTable(db, "robjs", idIndex)
				if err != nil {
					return err
				}
				w := db.WriteTxn(s.table)
				markInit = s.table.RegisterInitializer(w, "harness")
				w.Commit()
				return nil
			}),
			cell.Module("test", "test",
				cell.Invoke(func(p reconciler.Params) (err error) {
					set := setStatus
					if cfg.CopySetter {
						set = func(o *RObj, st reconciler.Status) *RObj { return setStatus(o.Clone(), st) }
					}
					s.rec, err = reconciler.Register(p, s.table, (*RObj).Clone, set, getStatus, o, bops, opts...)
					return err
				}),
			),
			cell.Module("test3", "test3",
				cell.Invoke(func(p reconciler.Params) error {
					for _, x := range s.extra {
						_, err := reconciler.Register(p, s.table, (*RObj).Clone, x.setStatus, x.getStatus, reconciler.Operations[*RObj](x), nil,
							reconciler.WithName(x.name), reconciler.WithRetry(cfg.BackoffMin, cfg.BackoffMax), reconciler.WithoutPruning(),
							reconciler.WithRoundLimits(cfg.RoundSize, rate.NewLimiter(rate.Inf, 1)))
						if err != nil {
							return err
						}
					}
					return nil
				}),
			),
		)
		log := hivetest.Logger(t, hivetest.LogLevel(slog.LevelError))
		if err := h.Start(log, context.TODO()); err != nil {
			t.Fatalf("hive start: %v", err)
		}
		defer func() {
			if err := h.Stop(log, context.TODO()); err != nil {
				t.Errorf("hive stop: %v", err)
			}
		}()
		s.logf("config %+v", cfg)
		initAtPhase := s.rng.IntN(cfg.Phases + 1)
		if cfg.Streak > 0 {
			// one object failing again and again: the waits between its attempts must stay inside [min, max] however long the streak
			s.mu.Lock()
			s.failProb = 100
			s.mu.Unlock()
			w := s.db.WriteTxn(s.table)
			markInit(w)
			s.mu.Lock()
			s.initDone = true
			s.mu.Unlock()
			s.nextPay++
			s.table.Insert(w, &RObj{ID: 1, Payload: s.nextPay, Statuses: reconciler.NewStatusSet()})
			rev := s.table.Revision(w)
			s.mu.Lock()
			s.model[1], s.modelRev[1] = s.nextPay, rev
			s.writes = append(s.writes, userWrite{s.nextSeq(), s.now(), 1, s.nextPay, rev, "streak"})
			s.mu.Unlock()
			w.Commit()
			for i := 0; i < 3*cfg.Streak; i++ {
				time.Sleep(cfg.BackoffMax + time.Second)
				synctest.Wait()
				s.mu.Lock()
				n := len(s.attempts)
				s.mu.Unlock()
				if n >= cfg.Streak {
					break
				}
			}
			s.mu.Lock()
			s.streakLen = len(s.attempts)
			s.mu.Unlock()
		}
		for ph := 0; ph < cfg.Phases && !s.failed.Load(); ph++ {
			s.mu.Lock()
			s.failProb = []int{0, 20, 50, 80}[s.rng.IntN(4)]
			s.injectPct = []int{0, 10, 30}[s.rng.IntN(3)]
			s.mu.Unlock()
			s.logf("phase %d failProb=%d injectPct=%d", ph, s.failProb, s.injectPct)
			if ph == initAtPhase {
				w := s.db.WriteTxn(s.table)
				markInit(w)
				s.mu.Lock()
				s.initDone = true
				s.mu.Unlock()
				w.Commit()
				s.logf("initializer done")
			}
			nw := 1 + s.rng.IntN(8)
			for i := 0; i < nw && !s.failed.Load(); i++ {
				s.userWrite("main", s.rng)
				if s.rng.IntN(2) == 0 {
					time.Sleep(time.Duration(s.rng.IntN(20)) * time.Millisecond)
				}
				if s.rng.IntN(6) == 0 {
					s.rec.Prune()
				}
			}
			// WaitUntilReconciled for the current table revision
			if s.rng.IntN(2) == 0 {
				rev := s.table.Revision(s.db.ReadTxn())
				s.startWaiter(rev)
			}
			// let the reconciler work (retries with failures still on)
			time.Sleep(time.Duration(50+s.rng.IntN(400)) * time.Millisecond)
			synctest.Wait()
			s.checkTableAgainstModel(fmt.Sprintf("phase %d", ph))
			if !s.failed.Load() {
				s.checkExtra(fmt.Sprintf("phase %d", ph), false)
			}
			if cfg.Pacing && !s.failed.Load() {
				// in pacing runs no write races with the reconciler: every change has been seen, the watermark is exact
				time.Sleep(2 * cfg.BackoffMax)
				synctest.Wait()
				s.checkWatermark(fmt.Sprintf("phase %d", ph))
			}
		}
		// failures and changes stop; bounded convergence
		s.mu.Lock()
		s.failProb, s.injectPct = 0, 0
		if !s.initDone {
			s.initDone = true
			s.mu.Unlock()
			w := s.db.WriteTxn(s.table)
			markInit(w)
			w.Commit()
			s.mu.Lock()
		}
		s.mu.Unlock()
		s.logf("failures and changes stopped")
		// bounded convergence: two maximal backoffs plus one round per object (limiter interval + longest operation) plus slack
		bound := 2*cfg.BackoffMax + time.Duration(cfg.Keys+5)*(time.Duration(cfg.LimiterMS)*time.Millisecond+35*time.Millisecond) + time.Second
		s.bound = bound
		time.Sleep(bound)
		synctest.Wait()
		if !s.failed.Load() {
			s.checkTableAgainstModel("final")
		}
		if !s.failed.Load() {
			s.convergenceCheck("final")
		}
		if !s.failed.Load() {
			s.checkExtra("final", true)
		}
		if !s.failed.Load() && !cfg.Refresh {
			s.checkWatermark("final")
		}
		s.waiters.wait()
		if !s.failed.Load() {
			s.pacingChecks()
		}
		s.mu.Lock()
		nontrivial := len(s.attempts) >= 3
		nfail := 0
		for _, a := range s.attempts {
			if !a.OK {
				nfail++
			}
		}
		for _, x := range s.extra {
			r.Count("other_reconcilers_attempts", int64(len(x.attempts)))
		}
		r.Max("reconcilers_on_one_table", int64(2+len(s.extra)))
		r.Count("user_transactions_holding_the_lock", int64(s.holds))
		r.Count("zero_watermarks_judged", int64(s.wmZero))
		r.Max("longest_failure_streak", int64(s.streakLen))
		r.Count("rounds_forced_into_the_commit_window", int64(s.windowRounds))
		r.Count("operation_attempts", int64(len(s.attempts)))
		r.Count("failed_attempts", int64(nfail))
		r.Count("user_writes", int64(len(s.writes)))
		r.Count("prune_calls", int64(s.prunes))
		r.Count("retry_waits_checked", int64(s.waits))
		r.Count("watermark_comparisons", int64(s.wmChecks))
		r.Count("convergence_checks", int64(s.convCheck))
		s.mu.Unlock()
		s.logMu.Lock()
		logCopy := append([]string(nil), s.log...)
		sum := s.fp.Sum()
		s.logMu.Unlock()
		if os.Getenv("VERIF_DEBUG") != "" {
			os.WriteFile("/tmp/recsim-debug.log", []byte(strings.Join(logCopy, "\n")), 0o644)
		}
		r.Case(sum, nontrivial)
		if r.WantSample() {
			tail := logCopy
			if len(tail) > 40 {
				tail = tail[:40]
			}
			r.Sample(map[string]any{"case": idx, "config": fmt.Sprintf("%+v", cfg), "first_events": tail})
		}
	})
}

// RandomConfig draws a configuration.
func RandomConfig(rng *rand.Rand, pacing bool) Config {
	bo := [][2]time.Duration{{100 * time.Millisecond, time.Second}, {50 * time.Millisecond, 50 * time.Millisecond}, {10 * time.Millisecond, 10 * time.Second}, {20 * time.Millisecond, 300 * time.Millisecond}}[rng.IntN(4)]
	c := Config{
		Batch:      rng.IntN(2) == 0,
		RoundSize:  []int{1, 2, 3, 1000}[rng.IntN(4)],
		LimiterMS:  []int{0, 10}[rng.IntN(2)],
		BackoffMin: bo[0], BackoffMax: bo[1],
		Refresh: rng.IntN(4) == 0,
		Pruning: rng.IntN(3) == 0,
		Keys:    2 + rng.IntN(7),
		Phases:  2 + rng.IntN(4),
		Pacing:  pacing,
	}
	if !pacing && rng.IntN(3) == 0 {
		c.Extra = 1 + rng.IntN(4)
	}
	c.CopySetter = rng.IntN(3) == 0
	if pacing {
		c.LimiterMS = 0
		c.Refresh = false
		c.Pruning = false
		if c.BackoffMax > time.Second {
			c.BackoffMax = time.Second
		}
	}
	return c
}

var _ = sort.Ints

// waiterSet is a wait group made of one channel per goroutine (channels created inside a bubble belong to it by construction,
// and a receive on one is durably blocking, so virtual time keeps moving while the main goroutine waits).
type waiterSet struct {
	mu   sync.Mutex
	done []chan struct{}
}

func (w *waiterSet) add() chan struct{} {
	c := make(chan struct{})
	w.mu.Lock()
	w.done = append(w.done, c)
	w.mu.Unlock()
	return c
}

func (w *waiterSet) wait() {
	for {
		w.mu.Lock()
		if len(w.done) == 0 {
			w.mu.Unlock()
			return
		}
		c := w.done[0]
		w.done = w.done[1:]
		w.mu.Unlock()
		<-c
	}
}
