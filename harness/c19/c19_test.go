package c19

import (
	"fmt"
	"math/rand/v2"
	"slices"
	"sort"
	"strings"
	"sync"
	"testing"
	"time"

	"github.com/cilium/statedb"

	"verifharness/concw"
	"verifharness/hookctl"
	"verifharness/vkit"
)

const rule = "random histories over 1-2 tables with 0-5 initializers: registrations and done-marks in any order across committed and aborted transactions (marks repeated after an abort, marks in the registering transaction, " +
	"several marks per transaction) mixed with ordinary writes and commits on other tables; after every operation Initialized/PendingInitializers of the write transaction, and after every commit/abort those of fresh and retained " +
	"snapshots, are compared with the model set (registered, done) over committed transactions; retained Initialized() channels must be open up to and including commit.rootLocked of the completing commit (hook points inside Commit), " +
	"closed when that Commit returns, never closed by aborts or by commits that leave initializers pending, and whenever one is observed closed a fresh snapshot must say initialized; " +
	"non-trivial = at least one initializer was registered and a snapshot compared after a later commit; distinct = hash of the operation log"

type tmodel struct {
	pending []string
}

func (m *tmodel) clone() *tmodel { return &tmodel{pending: append([]string(nil), m.pending...)} }

type initWatch struct {
	ch     <-chan struct{}
	table  int
	origin string
	inTxn  string // obtained from this write transaction (dropped if it aborts)
}

// ownedSlice is a slice the caller made by appending to a PendingInitializers() result: it is the caller's.
type ownedSlice struct {
	s, copy []string
	origin  string
}

type sim struct {
	r      *vkit.Run
	idx    int
	log    []string
	fp     *vkit.Hash64
	failed bool

	db          *statedb.DB
	tabs        []statedb.RWTable[*concw.Row]
	committed   []*tmodel
	doneFns     []map[string]func(statedb.WriteTxn) // per table: name -> done func (committed registrations only)
	watches     []*initWatch
	owned       []ownedSlice
	before      map[*initWatch]bool
	expectClose map[int]bool // tables that become initialized by the commit in flight
	nextName    int
	ctl         *hookctl.Ctl
	regRng      *rand.Rand
	regSeq      int
	regPending  chan struct{}
	checks      int
	registered  int
	verdicts    int
}

func (s *sim) logf(f string, a ...any) {
	s.log = append(s.log, fmt.Sprintf(f, a...))
	s.fp.Str(s.log[len(s.log)-1])
}

func (s *sim) violate(key, f string, a ...any) {
	if s.failed {
		return
	}
	s.failed = true
	tail := s.log
	if len(tail) > 200 {
		tail = tail[len(tail)-200:]
	}
	s.r.Violation(key, s.idx, map[string]any{"message": fmt.Sprintf(f, a...), "history": tail})
}

func isClosed(ch <-chan struct{}) bool {
	select {
	case <-ch:
		return true
	default:
		return false
	}
}

func sameSet(a, b []string) bool {
	a, b = append([]string(nil), a...), append([]string(nil), b...)
	sort.Strings(a)
	sort.Strings(b)
	return strings.Join(a, ",") == strings.Join(b, ",") && len(a) == len(b)
}

// check compares Initialized/PendingInitializers of txn with the model of table ti; retains the channel when not initialized.
func (s *sim) check(what string, txn statedb.ReadTxn, ti int, m *tmodel, retain bool, inTxn ...string) {
	if s.failed {
		return
	}
	s.checks++
	for _, o := range s.owned {
		if !slices.Equal(o.s, o.copy) {
			s.violate("callers-slice-changed", "%s: a slice the caller built by appending to the PendingInitializers() result of %s changed from %v to %v", what, o.origin, o.copy, o.s)
			return
		}
	}
	ok, ch := s.tabs[ti].Initialized(txn)
	want := len(m.pending) == 0
	if ok != want {
		s.violate("initialized-wrong", "%s: table %d Initialized=%v, model pending=%v", what, ti, ok, m.pending)
		return
	}
	got := s.tabs[ti].PendingInitializers(txn)
	if !sameSet(got, m.pending) {
		s.violate("pending-wrong", "%s: table %d PendingInitializers=%v, model %v", what, ti, got, m.pending)
		return
	}
	taken := false
	for _, o := range s.owned {
		// (one caller per returned array: two callers appending to the same result would overwrite each other, which is their business)
		taken = taken || len(got) > 0 && len(o.s) > 0 && &o.s[0] == &got[0]
	}
	if len(got) > 0 && !taken && s.checks%3 == 0 {
		// the caller extends its result (it does not touch the elements it was given): from here on that slice is the caller's
		mine := append(got, "caller:"+what)
		o := ownedSlice{mine, slices.Clone(mine), what}
		if len(s.owned) < 12 {
			s.owned = append(s.owned, o)
		} else {
			s.owned[s.checks%12] = o
		}
	}
	if ok && !isClosed(ch) {
		s.violate("channel-open-when-initialized", "%s: table %d is initialized but Initialized() returned an open channel", what, ti)
		return
	}
	if !ok {
		if isClosed(ch) && !strings.Contains(what, "retained") {
			s.violate("channel-closed-when-uninitialized", "%s: table %d is not initialized (pending %v) but the returned channel is already closed", what, ti, m.pending)
			return
		}
		if retain && len(s.watches) < 24 {
			w := &initWatch{ch: ch, table: ti, origin: what}
			if len(inTxn) > 0 {
				w.inTxn = inTxn[0]
			}
			s.watches = append(s.watches, w)
		}
	}
}

func (s *sim) closedStates() map[*initWatch]bool {
	m := map[*initWatch]bool{}
	for _, w := range s.watches {
		m[w] = isClosed(w.ch)
	}
	return m
}

// monitor runs in the committing goroutine at the hook points inside Commit.
func (s *sim) monitor(point, handle string) {
	if s.before == nil || s.failed {
		return
	}
	switch point {
	case "commit.beforeRootLock", "commit.rootLocked":
		if point == "commit.rootLocked" && s.regRng != nil && s.regRng.IntN(4) == 0 && s.regPending == nil {
			// a table registration runs into this commit: it queues on the root lock and must not undo what the commit publishes
			s.regSeq++
			name := fmt.Sprintf("late%d", s.regSeq)
			hN := fmt.Sprintf("%s-reg%d", handle, s.regSeq)
			done := make(chan struct{})
			s.regPending = done
			go func() {
				defer close(done)
				statedb.NewTable(s.db.NewHandle(hN), name, concw.IDIndex)
			}()
			for i := 0; i < 2000 && s.ctl.At(hN) != "register.beforeLock"; i++ {
				select {
				case <-done:
					i = 2000
				default:
					time.Sleep(20 * time.Microsecond)
				}
			}
			time.Sleep(100 * time.Microsecond)
			s.r.Count("registrations_into_commit", 1)
		}
		for _, w := range s.watches {
			if !s.before[w] && isClosed(w.ch) {
				s.violate("closed-before-root-store", "at %s: the Initialized() channel of table %d (from %s) is already closed", point, w.table, w.origin)
			}
		}
		s.verdicts++
		s.r.Seen("points", point)
	case "commit.afterRootStore", "commit.afterNotify", "commit.afterUnlock", "commit.afterInitNotify":
		for _, w := range s.watches {
			if !s.before[w] && isClosed(w.ch) {
				if ok, _ := s.tabs[w.table].Initialized(s.db.ReadTxn()); !ok {
					s.violate("closed-before-visible", "at %s: channel of table %d closed but a fresh snapshot says not initialized", point, w.table)
				}
				if !s.expectClose[w.table] {
					s.violate("closed-without-initialization", "at %s: channel of table %d closed although this commit does not complete its initialization", point, w.table)
				}
			}
		}
		s.verdicts++
		s.r.Seen("points", point)
	}
}

func (s *sim) run() {
	rng := s.r.Rand(s.idx)
	ntab := 1 + rng.IntN(2)
	s.tabs = concw.NewTables(s.db, "i", ntab)
	for range s.tabs {
		s.committed = append(s.committed, &tmodel{})
		s.doneFns = append(s.doneFns, map[string]func(statedb.WriteTxn){})
	}
	type snap struct {
		txn    statedb.ReadTxn
		models []*tmodel
		name   string
	}
	var snaps []snap
	ntx := 14 + rng.IntN(10)
	for x := 0; x < ntx && !s.failed; x++ {
		what := fmt.Sprintf("t%d", x)
		// table set
		var set []int
		for i := range s.tabs {
			if rng.IntN(3) > 0 {
				set = append(set, i)
			}
		}
		if len(set) == 0 {
			set = []int{rng.IntN(ntab)}
		}
		metas := make([]statedb.TableMeta, len(set))
		for i, ti := range set {
			metas[i] = s.tabs[ti]
		}
		wtxn := s.db.WriteTxn(metas...)
		working := map[int]*tmodel{}
		newFns := map[int]map[string]func(statedb.WriteTxn){}
		for _, ti := range set {
			working[ti] = s.committed[ti].clone()
			newFns[ti] = map[string]func(statedb.WriteTxn){}
		}
		s.before = s.closedStates()
		nops := rng.IntN(6)
		for j := 0; j < nops && !s.failed; j++ {
			ti := set[rng.IntN(len(set))]
			switch k := rng.IntN(10); {
			case k < 3 && s.registered < 5+s.idx%3:
				s.nextName++
				name := fmt.Sprintf("init%d", s.nextName)
				s.logf("%s table %d RegisterInitializer(%s)", what, ti, name)
				fn := s.tabs[ti].RegisterInitializer(wtxn, name)
				newFns[ti][name] = fn
				working[ti].pending = append(working[ti].pending, name)
				s.registered++
			case k < 7:
				// mark a registered initializer done (possibly one already done)
				var names []string
				for n := range s.doneFns[ti] {
					names = append(names, n)
				}
				for n := range newFns[ti] {
					names = append(names, n)
				}
				if len(names) == 0 {
					continue
				}
				sort.Strings(names)
				name := names[rng.IntN(len(names))]
				fn := newFns[ti][name]
				if fn == nil {
					fn = s.doneFns[ti][name]
				}
				s.logf("%s table %d done(%s)", what, ti, name)
				fn(wtxn)
				keep := working[ti].pending[:0]
				for _, p := range working[ti].pending {
					if p != name {
						keep = append(keep, p)
					}
				}
				working[ti].pending = keep
			default:
				s.logf("%s table %d insert", what, ti)
				s.tabs[ti].Insert(wtxn, &concw.Row{ID: fmt.Sprint(rng.IntN(4)), V: int64(x)})
			}
			// (the channel a write transaction is given is retained too: a registration and its completion may share one transaction)
			s.check(what+" in-txn", wtxn, ti, working[ti], true, what)
		}
		if s.failed {
			wtxn.Abort()
			break
		}
		if rng.IntN(100) < 35 {
			s.logf("%s Abort", what)
			wtxn.Abort()
			// channels handed out by the aborted transaction may belong to an initialization round that never existed
			kept := s.watches[:0]
			for _, w := range s.watches {
				if w.inTxn != what || isClosed(w.ch) {
					kept = append(kept, w)
				}
			}
			s.watches = kept
			for _, w := range s.watches {
				if !s.before[w] && isClosed(w.ch) {
					s.violate("closed-by-abort", "%s: the Initialized() channel of table %d closed although the transaction aborted", what, w.table)
				}
			}
		} else {
			s.logf("%s Commit", what)
			s.expectClose = map[int]bool{}
			for _, ti := range set {
				if len(working[ti].pending) == 0 && len(s.committed[ti].pending) > 0 {
					s.expectClose[ti] = true
				}
				// a registration and completion inside one transaction also initializes (channel of the in-txn registration)
				if len(working[ti].pending) == 0 {
					s.expectClose[ti] = true
				}
			}
			rt := wtxn.Commit()
			if s.regPending != nil {
				select {
				case <-s.regPending:
				case <-time.After(vkit.Patient(20 * time.Second)):
					s.violate("registration-stuck", "%s: NewTable started during the commit did not finish", what)
				}
				s.regPending = nil
			}
			for _, ti := range set {
				was := s.committed[ti]
				s.committed[ti] = working[ti]
				for n, fn := range newFns[ti] {
					s.doneFns[ti][n] = fn
				}
				// channels of this table: closed iff the table is now initialized
				for _, w := range s.watches {
					if w.table != ti || s.before[w] {
						continue
					}
					s.verdicts++
					if len(working[ti].pending) == 0 && !isClosed(w.ch) {
						s.violate("not-closed-after-initialization", "%s: table %d became initialized (pending before: %v) but the channel from %s is still open after Commit returned", what, ti, was.pending, w.origin)
					}
					if len(working[ti].pending) > 0 && isClosed(w.ch) {
						s.violate("closed-while-pending", "%s: table %d still has pending initializers %v but the channel from %s closed", what, ti, working[ti].pending, w.origin)
					}
				}
			}
			for ti := range s.tabs {
				s.check(what+" commit-snapshot", rt, ti, s.committed[ti], true)
			}
			if len(snaps) < 6 {
				snaps = append(snaps, snap{rt, append([]*tmodel(nil), s.committed...), what})
			}
		}
		s.before = nil
		// drop closed channels
		keep := s.watches[:0]
		for _, w := range s.watches {
			if !isClosed(w.ch) {
				keep = append(keep, w)
			}
		}
		s.watches = keep
		fresh := s.db.ReadTxn()
		for ti := range s.tabs {
			s.check(what+" fresh", fresh, ti, s.committed[ti], true)
		}
		for _, sn := range snaps {
			for ti := range s.tabs {
				s.check(what+" retained "+sn.name, sn.txn, ti, sn.models[ti], false)
			}
		}
	}
}

func TestVerif_Histories(t *testing.T) {
	r := vkit.Start(t, "C19", "histories", "fault_enumeration", rule)
	r.Assume("initializer names are unique per registration", "done functions obtained from registrations in aborted transactions are not called")
	r.Require("checks", "channel_verdicts", "distinct:points")
	ctl := hookctl.Install(vkit.Seed())
	defer ctl.Uninstall()
	var monitors sync.Map
	ctl.OnPoint(func(point, handle string) {
		if f, ok := monitors.Load(handle); ok {
			f.(func(string, string))(point, handle)
		}
	})
	r.ParallelCases(vkit.N(6000, 150000), vkit.Workers(), func(i int) {
		s := &sim{r: r, idx: i, fp: vkit.NewHash(), ctl: ctl, regRng: r.Rand(i, 77)}
		h := fmt.Sprintf("c19-%d", i)
		s.db = statedb.New().NewHandle(h)
		monitors.Store(h, s.monitor)
		defer monitors.Delete(h)
		func() {
			defer func() {
				if p := recover(); p != nil {
					s.failed = false
					s.violate("panic/"+fmt.Sprint(p)[:min(50, len(fmt.Sprint(p)))], "panic: %v", p)
				}
			}()
			s.run()
		}()
		r.Case(s.fp.Sum(), s.registered > 0 && s.checks > 10)
		r.Count("checks", int64(s.checks))
		r.Count("channel_verdicts", int64(s.verdicts))
		r.Count("initializers_registered", int64(s.registered))
		if r.WantSample() {
			tail := s.log
			if len(tail) > 40 {
				tail = tail[:40]
			}
			r.Sample(map[string]any{"case": i, "first_ops": tail})
		}
	})
	r.Finish()
}

// Concurrent waiters under the race detector with delays injected inside Commit.
func TestVerifRace_Waiters(t *testing.T) {
	r := vkit.Start(t, "C19", "waiters", "fault_enumeration", "a committer completes the last initializer under delay injection at the hook points inside Commit while 4 waiter goroutines block on the Initialized() channel; "+
		"a woken waiter takes a ReadTxn at once and must see the table initialized; non-trivial = waiters woke up; distinct = round")
	r.Require("wakeups")
	ctl := hookctl.Install(vkit.Seed())
	defer ctl.Uninstall()
	ctl.SetStress(true)
	rounds := vkit.N(200, 5000)
	for round := 0; round < rounds; round++ {
		db := statedb.New()
		tb := concw.NewTables(db, "w", 1)[0]
		w := db.WriteTxn(tb)
		d1 := tb.RegisterInitializer(w, "a")
		d2 := tb.RegisterInitializer(w, "b")
		w.Commit()
		_, ch := tb.Initialized(db.ReadTxn())
		var wg sync.WaitGroup
		for i := 0; i < 4; i++ {
			wg.Add(1)
			go func() {
				defer wg.Done()
				<-ch
				if ok, _ := tb.Initialized(db.ReadTxn()); !ok {
					r.Violation("closed-before-visible", round, map[string]any{"message": "waiter woke up on the Initialized() channel but a fresh ReadTxn says not initialized"})
				}
				r.Count("wakeups", 1)
			}()
		}
		w = db.WriteTxn(tb)
		d1(w)
		w.Commit()
		if isClosed(ch) {
			r.Violation("closed-while-pending", round, map[string]any{"message": "channel closed after the first of two initializers completed"})
		}
		w = db.WriteTxn(tb)
		d2(w)
		w.Abort()
		if isClosed(ch) {
			r.Violation("closed-by-abort", round, map[string]any{"message": "channel closed by an aborted completion"})
		}
		w = db.WriteTxn(tb)
		d2(w)
		w.Commit()
		woke := make(chan struct{})
		go func() { wg.Wait(); close(woke) }()
		select {
		case <-woke:
		case <-time.After(vkit.Patient(20 * time.Second)):
			r.Violation("never-initialized", round, map[string]any{"message": "after done(a) commit; done(b) abort; done(b) commit the waiters on the Initialized() channel were never woken"})
			r.Finish()
			return
		}
		r.Case(uint64(round), true)
	}
	r.Sample(map[string]any{"shape": "register a,b; done(a) commit; done(b) abort; done(b) commit; 4 waiters"})
	r.Finish()
}
