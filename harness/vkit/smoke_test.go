package vkit

import (
	"testing"
	"testing/synctest"
	"time"

	"github.com/anishathalye/porcupine"
	"github.com/cilium/statedb"
	"github.com/cilium/statedb/reconciler"
)

func TestSmoke(t *testing.T) {
	_ = porcupine.Ok
	_ = statedb.New()
	_ = reconciler.StatusDone
	synctest.Test(t, func(t *testing.T) {
		t0 := time.Now()
		time.Sleep(time.Hour)
		if time.Since(t0) != time.Hour {
			t.Fatal("not virtual")
		}
	})
	statedb.SetVerifHook(nil)
}
