// Package vkit is the shared kit of the runtime-monitoring harness: seeded PRNG streams,
// case accounting, violation/replay files and the evidence writer.
//
// Protocol with the driver (/verif/run): a check is a `go test` run of one or more test
// functions; every part writes evidence/parts/<ID>.<part>.json and prints machine lines
// starting with "@@VERIF " on stdout. The driver merges the parts into evidence/<ID>.json
// and decides the exit code.
package vkit

import (
	"encoding/json"
	"fmt"
	"hash/fnv"
	"math/rand/v2"
	"os"
	"path/filepath"
	"runtime"
	"sort"
	"strconv"
	"strings"
	"sync"
	"testing"
	"time"
)

// Root returns the /verif directory.
func Root() string {
	if r := os.Getenv("VERIF_ROOT"); r != "" {
		return r
	}
	return "/verif"
}

// Seed returns VERIF_SEED (default 1).
func Seed() uint64 {
	if s := os.Getenv("VERIF_SEED"); s != "" {
		if v, err := strconv.ParseInt(s, 10, 64); err == nil {
			return uint64(v)
		}
	}
	return 1
}

// Tier returns "quick" or "thorough".
func Tier() string {
	if os.Getenv("VERIF_TIER") == "thorough" {
		return "thorough"
	}
	return "quick"
}

// Thorough is true for the thorough tier.
func Thorough() bool { return Tier() == "thorough" }

// N picks a case count by tier.
func N(quick, thorough int) int {
	if Thorough() {
		return thorough
	}
	return quick
}

// ReplayCase returns (part, caseIndex, true) when the run is a replay of a single case.
func ReplayCase() (string, int, bool) {
	s := os.Getenv("VERIF_REPLAY_CASE") // "<part>:<index>"
	if s == "" {
		return "", 0, false
	}
	i := strings.LastIndexByte(s, ':')
	if i < 0 {
		return "", 0, false
	}
	n, err := strconv.Atoi(s[i+1:])
	if err != nil {
		return "", 0, false
	}
	return s[:i], n, true
}

// Rand returns a PCG stream determined by (seed, part, stream ids).
func Rand(part string, ids ...uint64) *rand.Rand {
	h := fnv.New64a()
	h.Write([]byte(part))
	a := Seed()*0x9E3779B97F4A7C15 + h.Sum64()
	b := uint64(0xD1B54A32D192ED03)
	for _, id := range ids {
		b = (b ^ id) * 0x9E3779B97F4A7C15
		b ^= b >> 29
	}
	return rand.New(rand.NewPCG(a, b))
}

// Violation is one observed violation.
type Violation struct {
	Property string `json:"property"`
	Part     string `json:"part"`
	Key      string `json:"key"`  // stable finding key computed from the failing input
	Case     int    `json:"case"` // case index (replayable with the seed)
	Seed     uint64 `json:"seed"`
	Detail   any    `json:"detail"`
	Replay   string `json:"replay"`
}

// Run accounts for one part of one property's check.
type Run struct {
	T        testing.TB
	Property string
	Part     string
	Level    string
	Rule     string

	mu          sync.Mutex
	start       time.Time
	evaluations int64
	nontrivial  int64
	distinct    map[uint64]struct{}
	samples     []any
	maxSamples  int
	counters    map[string]int64
	sets        map[string]map[string]struct{}
	violations  []Violation
	vkeys       map[string]int
	inconcl     int64
	assumptions []string
	required    []string
	exhaustive  bool
	finished    bool
}

// Start begins a part. level is the manifest level category.
func Start(t testing.TB, property, part, level, rule string) *Run {
	r := &Run{
		T: t, Property: property, Part: part, Level: level, Rule: rule,
		start:      time.Now(),
		distinct:   map[uint64]struct{}{},
		counters:   map[string]int64{},
		sets:       map[string]map[string]struct{}{},
		vkeys:      map[string]int{},
		maxSamples: 3,
	}
	fmt.Printf("@@VERIF {\"kind\":\"start\",\"property\":%q,\"part\":%q,\"seed\":%d,\"tier\":%q}\n", property, part, Seed(), Tier())
	startHeartbeat()
	return r
}

// Assume records an assumption of the check.
func (r *Run) Assume(s ...string) { r.assumptions = append(r.assumptions, s...) }

// Require names counters that must be non-zero at Finish; a run that observed none of a
// required event is a failed run (the monitors saw nothing).
func (r *Run) Require(names ...string) { r.required = append(r.required, names...) }

// SetExhaustive marks the part as a complete enumeration of a finite space.
func (r *Run) SetExhaustive() { r.exhaustive = true }

// Rand returns the PRNG stream of a case (and optional sub stream).
func (r *Run) Rand(caseIdx int, sub ...uint64) *rand.Rand {
	ids := append([]uint64{uint64(caseIdx)}, sub...)
	return Rand(r.Property+"/"+r.Part, ids...)
}

// LogCase prints the case marker before the case runs so that a crash can be attributed.
func (r *Run) LogCase(caseIdx int) {
	if os.Getenv("VERIF_LOGCASES") != "" {
		fmt.Printf("@@CASE %s/%s %d\n", r.Property, r.Part, caseIdx)
	}
}

// Case accounts for one executed case. fp is the fingerprint of the case (hash of the
// operation sequence / observed interleaving); nontrivial says whether it satisfied the rule.
func (r *Run) Case(fp uint64, nontrivial bool) {
	r.mu.Lock()
	r.evaluations++
	if nontrivial {
		r.nontrivial++
		r.distinct[fp] = struct{}{}
	}
	r.mu.Unlock()
}

// Sample keeps one of the first few samples.
func (r *Run) Sample(v any) {
	r.mu.Lock()
	if len(r.samples) < r.maxSamples {
		r.samples = append(r.samples, v)
	}
	r.mu.Unlock()
}

// WantSample reports whether more samples are wanted (to avoid building them needlessly).
func (r *Run) WantSample() bool {
	r.mu.Lock()
	defer r.mu.Unlock()
	return len(r.samples) < r.maxSamples
}

// Count adds to a named monitor counter.
func (r *Run) Count(name string, n int64) {
	r.mu.Lock()
	r.counters[name] += n
	r.mu.Unlock()
}

// Max raises a named counter to at least n.
func (r *Run) Max(name string, n int64) {
	r.mu.Lock()
	if r.counters[name] < n {
		r.counters[name] = n
	}
	r.mu.Unlock()
}

// Seen adds a member to a named set; the set's cardinality is reported as counter "distinct:<name>".
func (r *Run) Seen(name, member string) {
	r.mu.Lock()
	s := r.sets[name]
	if s == nil {
		s = map[string]struct{}{}
		r.sets[name] = s
	}
	s[member] = struct{}{}
	r.mu.Unlock()
}

// Inconclusive records an inconclusive verdict (checker timeout, watchdog with progress).
func (r *Run) Inconclusive(what string) {
	r.mu.Lock()
	r.inconcl++
	r.mu.Unlock()
	fmt.Printf("@@VERIF {\"kind\":\"inconclusive\",\"property\":%q,\"part\":%q,\"what\":%q}\n", r.Property, r.Part, what)
}

// Violations returns the number of violations recorded so far.
func (r *Run) Violations() int {
	r.mu.Lock()
	defer r.mu.Unlock()
	return len(r.violations)
}

// Violation records a violation. key is a stable finding key computed from the failing input
// class; at most 3 violations per key are written out in full.
func (r *Run) Violation(key string, caseIdx int, detail any) {
	r.mu.Lock()
	r.vkeys[key]++
	n := r.vkeys[key]
	if n > 3 {
		r.mu.Unlock()
		return
	}
	v := Violation{Property: r.Property, Part: r.Part, Key: key, Case: caseIdx, Seed: Seed(), Detail: detail}
	dir := filepath.Join(Root(), "replays", r.Property)
	os.MkdirAll(dir, 0o755)
	h := fnv.New32a()
	h.Write([]byte(key))
	name := fmt.Sprintf("%s-s%d-c%d-%08x.json", r.Part, Seed(), caseIdx, h.Sum32())
	v.Replay = filepath.Join(dir, name)
	r.violations = append(r.violations, v)
	r.mu.Unlock()
	b, err := json.MarshalIndent(v, "", " ")
	if err != nil {
		b, _ = json.MarshalIndent(Violation{Property: v.Property, Part: v.Part, Key: v.Key, Case: v.Case, Seed: v.Seed, Detail: fmt.Sprintf("%+v", detail), Replay: v.Replay}, "", " ")
	}
	os.WriteFile(v.Replay, b, 0o644)
	line, _ := json.Marshal(map[string]any{"kind": "violation", "property": r.Property, "part": r.Part, "key": key, "case": caseIdx, "replay": v.Replay})
	fmt.Printf("@@VERIF %s\n", line)
}

type partEvidence struct {
	Property    string           `json:"property_id"`
	Part        string           `json:"part"`
	Tier        string           `json:"tier"`
	Seed        uint64           `json:"seed"`
	Level       string           `json:"level"`
	Rule        string           `json:"rule"`
	Evaluations int64            `json:"evaluations"`
	Nontrivial  int64            `json:"nontrivial_cases"`
	Distinct    int64            `json:"distinct_nontrivial"`
	Samples     []any            `json:"samples"`
	Counters    map[string]int64 `json:"counters"`
	Violations  int              `json:"violations"`
	ViolKeys    map[string]int   `json:"violation_keys,omitempty"`
	Inconcl     int64            `json:"inconclusive"`
	Assumptions []string         `json:"assumptions"`
	Exhaustive  bool             `json:"exhaustive"`
	WallS       float64          `json:"wall_s"`
	MissingReq  []string         `json:"missing_required,omitempty"`
}

// Finish writes the part's evidence and fails the test when required events were not observed.
func (r *Run) Finish() {
	r.mu.Lock()
	if r.finished {
		r.mu.Unlock()
		return
	}
	r.finished = true
	for name, s := range r.sets {
		r.counters["distinct:"+name] = int64(len(s))
	}
	var missing []string
	if _, _, replay := ReplayCase(); !replay {
		for _, name := range r.required {
			if r.counters[name] == 0 {
				missing = append(missing, name)
			}
		}
	}
	sort.Strings(missing)
	ev := partEvidence{
		Property: r.Property, Part: r.Part, Tier: Tier(), Seed: Seed(), Level: r.Level, Rule: r.Rule,
		Evaluations: r.evaluations, Nontrivial: r.nontrivial, Distinct: int64(len(r.distinct)),
		Samples: r.samples, Counters: r.counters, Violations: len(r.violations), ViolKeys: r.vkeys,
		Inconcl: r.inconcl, Assumptions: r.assumptions, Exhaustive: r.exhaustive,
		WallS: time.Since(r.start).Seconds(), MissingReq: missing,
	}
	r.mu.Unlock()
	dir := filepath.Join(Root(), "evidence", "parts")
	os.MkdirAll(dir, 0o755)
	b, err := json.MarshalIndent(ev, "", " ")
	if err != nil {
		ev.Samples = []any{fmt.Sprintf("%+v", ev.Samples)}
		b, _ = json.MarshalIndent(ev, "", " ")
	}
	path := filepath.Join(dir, r.Property+"."+r.Part+".json")
	if err := os.WriteFile(path, b, 0o644); err != nil {
		r.T.Errorf("writing evidence: %v", err)
	}
	line, _ := json.Marshal(map[string]any{"kind": "finish", "property": r.Property, "part": r.Part,
		"evaluations": ev.Evaluations, "distinct_nontrivial": ev.Distinct, "violations": ev.Violations,
		"inconclusive": ev.Inconcl, "missing_required": missing, "wall_s": ev.WallS})
	fmt.Printf("@@VERIF %s\n", line)
	if len(missing) > 0 {
		r.T.Errorf("monitors observed nothing for required events: %v", missing)
	}
	if ev.Violations > 0 {
		r.T.Errorf("%d violation(s) of %s in part %s", ev.Violations, r.Property, r.Part)
	}
}

// Hash64 is a small helper to fingerprint case descriptions.
type Hash64 struct{ h uint64 }

// NewHash returns a FNV-1a style accumulator.
func NewHash() *Hash64 { return &Hash64{h: 14695981039346656037} }

// Bytes mixes bytes.
func (h *Hash64) Bytes(b []byte) *Hash64 {
	for _, c := range b {
		h.h ^= uint64(c)
		h.h *= 1099511628211
	}
	h.h ^= 0xff
	h.h *= 1099511628211
	return h
}

// Str mixes a string.
func (h *Hash64) Str(s string) *Hash64 { return h.Bytes([]byte(s)) }

// Int mixes an integer.
func (h *Hash64) Int(v int64) *Hash64 {
	for i := 0; i < 8; i++ {
		h.h ^= uint64(byte(v >> (8 * i)))
		h.h *= 1099511628211
	}
	return h
}

// Sum returns the hash.
func (h *Hash64) Sum() uint64 { return h.h }

// ParallelCases runs fn for case indexes [0,n) on 'workers' goroutines (or only the replayed
// case). fn must be self-contained per case. Panics inside fn are turned into violations with
// key "panic/<part>" unless the case handler recovers itself.
func (r *Run) ParallelCases(n, workers int, fn func(caseIdx int)) {
	if part, idx, ok := ReplayCase(); ok {
		if part == r.Part {
			r.runCase(idx, fn)
		}
		return
	}
	if workers < 1 {
		workers = 1
	}
	var wg sync.WaitGroup
	next := make(chan int, workers)
	for w := 0; w < workers; w++ {
		wg.Add(1)
		go func() {
			defer wg.Done()
			for i := range next {
				r.runCase(i, fn)
			}
		}()
	}
	for i := 0; i < n; i++ {
		next <- i
	}
	close(next)
	wg.Wait()
}

func (r *Run) runCase(i int, fn func(int)) {
	r.LogCase(i)
	defer r.Watchdog(i, 10*time.Minute, nil)()
	defer func() {
		if p := recover(); p != nil {
			r.Violation("panic/"+r.Part+"/"+firstLine(fmt.Sprint(p)), i, map[string]any{"panic": fmt.Sprint(p), "stack": string(stack())})
		}
	}()
	fn(i)
}

func firstLine(s string) string {
	if i := strings.IndexByte(s, '\n'); i >= 0 {
		s = s[:i]
	}
	if len(s) > 80 {
		s = s[:80]
	}
	return s
}

// Watchdog guards one case with a generous wall-clock limit (started outside any synctest bubble, so it is real time).
// On the unchanged tree cases take milliseconds; a case that does not end within the limit (a livelock that never lets the
// bubble go idle, a deadlock) is reported as a violation and the process exits, because a stuck bubble cannot be cancelled.
// The returned function stops the watchdog.
func (r *Run) Watchdog(caseIdx int, limit time.Duration, describe func() any) func() {
	done := make(chan struct{})
	go func() {
		select {
		case <-done:
		case <-time.After(limit):
			var d any
			if describe != nil {
				d = describe()
			}
			r.Violation("stuck/"+r.Part, caseIdx, map[string]any{"message": fmt.Sprintf("case %d did not finish within %v of wall-clock time (livelock or deadlock: the run never became idle)", caseIdx, limit), "detail": d, "goroutines": string(allStacks())})
			r.Finish()
			os.Exit(1)
		}
	}()
	return func() { close(done) }
}

var hbOnce sync.Once

// startHeartbeat prints a line every 5 s for the driver's stall detection (one per process).
func startHeartbeat() {
	hbOnce.Do(func() {
		go func() {
			for i := 0; ; i++ {
				time.Sleep(5 * time.Second)
				fmt.Printf("@@HB %d\n", i)
			}
		}()
	})
}

// Patient stretches a wall-clock deadline of the "this must happen within d" kind by how overloaded the machine is
// (1-minute load average per CPU, read at the call), so that a deadline that only fires on a violation does not fire
// because the process was starved. Deadlines below 5 s are polling intervals or "must not happen" windows and are left alone.
func Patient(d time.Duration) time.Duration {
	if d < 5*time.Second {
		return d
	}
	f := 1.0
	if b, err := os.ReadFile("/proc/loadavg"); err == nil {
		if fs := strings.Fields(string(b)); len(fs) > 0 {
			if l, err := strconv.ParseFloat(fs[0], 64); err == nil {
				f = 2 * l / float64(runtime.NumCPU())
			}
		}
	}
	if f < 1 {
		f = 1
	}
	if f > 40 {
		f = 40
	}
	return time.Duration(float64(d) * f)
}
