package vkit

import "runtime"

func stack() []byte {
	buf := make([]byte, 16<<10)
	n := runtime.Stack(buf, false)
	return buf[:n]
}

// Workers returns the default number of parallel case workers.
func Workers() int {
	n := runtime.GOMAXPROCS(0)
	if n > 16 {
		n = 16
	}
	return n
}

func allStacks() []byte {
	buf := make([]byte, 256<<10)
	n := runtime.Stack(buf, true)
	if n > 60000 {
		n = 60000
	}
	return buf[:n]
}
