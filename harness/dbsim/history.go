package dbsim

import (
	"bytes"
	"errors"
	"fmt"
	"math/rand/v2"
	"net/netip"
	"slices"
	"strings"
	"sync"

	"github.com/cilium/statedb"

	"verifharness/hookctl"
	"verifharness/vkit"
)

// Opts configures a history.
type Opts struct {
	Tables         int
	Txns           int
	MaxOps         int
	ProbesPerIndex int
	AnyTable       bool
	Retain         int             // number of retained snapshots (0 = none)
	Watches        int             // number of retained watch channels (0 = none)
	Iterators      bool            // change iterators + GC interplay (needs a started DB; run inside a synctest bubble)
	Report         map[string]bool // violation classes to report: ret, query, frozen, rev, changes, abort
	SchemaPick     []int           // indexes into Schemas to choose from (nil = all)
	Initializers   bool            // transactions also register table initializers and mark them done
	Remote         bool            // committed states are also queried through the HTTP handler and RemoteTable (not in bubbles)
	AbortPct       int
	Ctl            *hookctl.Ctl      // hook controller (needed for ForceGC)
	Quiesce        bool              // drain + bounded-collection checks (C08)
	ForceGC        bool              // pause the collector between its scan and its write transaction and mutate the table meanwhile
	Sleep          func()            // lets virtual time pass (GC rounds); nil = no-op
	OnSim          func(*Sim) func() // called with each new Sim; the returned function is called when the history ends
}

// forcedOp directs writeOp: kind 0 = Insert, 45 = Delete (see the ranges in writeOp).
type initFn struct {
	t    *simTable
	name string
	done func(statedb.WriteTxn)
}

// initOp registers an initializer for a table the transaction holds or marks a registered one done (idempotent; marking one
// that is not pending, e.g. again or after the registering... round completed, changes nothing).
func (s *Sim) initOp(what string, wtxn statedb.WriteTxn, t *simTable, working *TableModel) {
	var mine []initFn
	for _, f := range s.initFns {
		if f.t == t {
			mine = append(mine, f)
		}
	}
	for _, f := range s.newInitFns {
		if f.t == t {
			mine = append(mine, f)
		}
	}
	if len(mine) > 0 && s.Rng.IntN(2) == 0 {
		f := mine[s.Rng.IntN(len(mine))]
		s.Logf("%s %s initializer %s done", what, t.name, f.name)
		f.done(wtxn)
		if i := slices.Index(working.Pending, f.name); i >= 0 {
			working.Pending = slices.Delete(slices.Clone(working.Pending), i, i+1)
		}
		return
	}
	s.nextInit++
	name := fmt.Sprintf("i%d", s.nextInit)
	s.Logf("%s %s.RegisterInitializer(%s)", what, t.name, name)
	done := t.tbl.RegisterInitializer(wtxn, name)
	working.Pending = append(slices.Clone(working.Pending), name)
	s.newInitFns = append(s.newInitFns, initFn{t, name, done})
}

type forcedOp struct {
	kind int
	id   []byte
}

type simTable struct {
	name      string
	schema    Schema
	tbl       statedb.RWTable[*Obj]
	committed *TableModel
	iters     []*simIter
	delLog    []delEntry
	settled   bool // no iterator open and the graveyard was observed empty since the last one closed
}

type snapshot struct {
	name        string
	txn         statedb.ReadTxn
	models      []*TableModel
	probes      [][]Probe
	transcripts []uint64
	seqs        []retSeq
}

type retSeq struct {
	desc string
	seq  func() []Obs
	want []Obs
}

// Sim is one running history.
type Sim struct {
	R      *vkit.Run
	Idx    int
	Rng    *rand.Rand
	O      Opts
	DB     *statedb.DB
	Handle string
	Tabs   []*simTable

	snaps                        []*snapshot
	watches                      []*simWatch
	txnBefore                    map[*simWatch]bool
	txnChanged                   map[*simTable]bool
	watchHandouts, watchVerdicts int
	itx                          map[*simTable]*iterTxnState
	iterSeq                      int
	open                         statedb.WriteTxn // the write transaction in flight (aborted by Recover)
	metrics                      *metricsRec
	forceFull                    bool
	bias                         string   // "", "grow", "shrink" (wide schemas)
	initFns, newInitFns          []initFn // done functions of committed / this transaction's registrations
	nextInit                     int
	foreign                      int // divergences seen that belong to other checks' classes
	regMu                        sync.Mutex
	wseqs                        []*wseq
	rem                          *remote
	remoteChecks                 int
	resurrections                int
	closeQueued                  int
	gcCycles                     int
	wseqChecks                   int
	forceSet                     []*simTable // table set of the next RunTxn (nested transactions)
	forcedMore                   []forcedOp  // further operations of the forced transaction
	collapses                    int
	forced                       *forcedOp                      // the next RunTxn performs exactly this operation and commits
	zombies                      []statedb.ChangeIterator[*Obj] // iterators created in transactions that aborted (kept reachable, not closed)
	gcChecks                     int
	gcPauses                     int
	closePauses                  int
	regPending                   chan struct{}
	regTick                      int
	registrations                int
	nextN                        uint64
	crowd                        *netip.Prefix // when set, most objects of the history also carry this prefix (many objects under one LPM key)
	fp                           *vkit.Hash64
	Log                          []string
	Failed                       bool
	frozenChecks                 int
	queryChecks                  int
	retChecks                    int
	revChecks                    int
	changeChecks                 int
	commits, aborts              int
}

func (s *Sim) Logf(f string, a ...any) {
	s.Log = append(s.Log, fmt.Sprintf(f, a...))
	s.fp.Str(s.Log[len(s.Log)-1])
}

// Violate records a violation of the given class (reported only if the class is enabled) and stops the history.
func (s *Sim) Violate(class, key, f string, a ...any) {
	if s.Failed {
		return
	}
	if !s.O.Report[class] && !s.O.Report[class+"/"+key] {
		// Not this check's property: the history goes on with the model's expectation, so that the consequences this check does
		// own (a later battery, a retained snapshot, an abort comparison) are still observed.
		s.Logf("(divergence of class %s/%s, owned by another check: %s)", class, key, fmt.Sprintf(f, a...))
		s.foreign++
		if s.foreign > 20 {
			s.Failed = true
		}
		return
	}
	s.Failed = true
	tail := s.Log
	if len(tail) > 250 {
		tail = tail[len(tail)-250:]
	}
	var schemas []string
	for _, t := range s.Tabs {
		schemas = append(schemas, t.name+":"+t.schema.Name)
	}
	s.R.Violation(class+"/"+key, s.Idx, map[string]any{"message": fmt.Sprintf(f, a...), "tables": schemas, "history": tail})
}

func (s *Sim) newN() uint64 { s.nextN++; return s.nextN }

func (s *Sim) genID(sc Schema) []byte {
	if sc.Wide {
		// "", "a", "b", or a/b followed by one of 64 letters: the node under "a" walks through every node size
		switch x := s.Rng.IntN(40); {
		case x == 0:
			return []byte{}
		case x < 3:
			return []byte{"ab"[s.Rng.IntN(2)]}
		default:
			first := byte('a')
			if s.Rng.IntN(4) == 0 {
				first = 'b'
			}
			return []byte{first, sc.IDAlphabet[s.Rng.IntN(len(sc.IDAlphabet))]}
		}
	}
	if sc.UintIDs {
		var b [8]byte
		b[7] = byte(s.Rng.IntN(12))
		return b[:]
	}
	n := s.Rng.IntN(sc.IDMaxLen + 1)
	b := make([]byte, n)
	for i := range b {
		b[i] = sc.IDAlphabet[s.Rng.IntN(len(sc.IDAlphabet))]
	}
	if sc.LongIDs && s.Rng.IntN(10) < 3 {
		// nested path keys: every prefix "/d", "/d/d", ... may be a key: radix tree depth up to 45
		return bytes.Repeat([]byte("/d"), 1+s.Rng.IntN(45))
	}
	if sc.LongIDs && s.Rng.IntN(10) < 8 {
		b = append(bytes.Clone(longStems[s.Rng.IntN(len(longStems))]), b...)
	}
	return b
}

func (s *Sim) genTag() []byte {
	n := []int{0, 1, 1, 2, 2, 3}[s.Rng.IntN(6)]
	b := make([]byte, n)
	for i := range b {
		b[i] = tagAlphabet[s.Rng.IntN(len(tagAlphabet))]
	}
	return b
}

// genObj makes an object for the table; unique secondary keys are kept unique against the working model.
func (s *Sim) genObj(t *simTable, working *TableModel, id []byte) *Obj {
	o := &Obj{ID: id, N: s.newN()}
	sc := t.schema
	old, hasOld := working.Objs[string(id)]
	if sc.Tags {
		n := []int{0, 0, 1, 1, 2, 3}[s.Rng.IntN(6)]
		if hasOld && s.Rng.IntN(3) == 0 {
			// grow/shrink/permute the old key set
			o.Tags = append(o.Tags, old.O.Tags...)
			s.Rng.Shuffle(len(o.Tags), func(i, j int) { o.Tags[i], o.Tags[j] = o.Tags[j], o.Tags[i] })
			if len(o.Tags) > 0 && s.Rng.IntN(2) == 0 {
				o.Tags = o.Tags[:s.Rng.IntN(len(o.Tags))]
			}
			n = s.Rng.IntN(2)
		}
		for i := 0; i < n; i++ {
			o.Tags = append(o.Tags, s.genTag())
		}
		if len(o.Tags) > 0 && s.Rng.IntN(10) == 0 {
			o.Tags = append(o.Tags, o.Tags[0]) // duplicate key in the key set
		}
	}
	if sc.U && s.Rng.IntN(4) > 0 {
		used := map[string]bool{}
		for k, m := range working.Objs {
			if k != string(id) && m.O.U != nil {
				used[string(m.O.U)] = true
			}
		}
		for try := 0; try < 6; try++ {
			u := s.genTag()
			if sc.LongIDs && s.Rng.IntN(2) == 0 {
				u = append(bytes.Clone(longStems[s.Rng.IntN(len(longStems))]), u...)
			}
			if hasOld && old.O.U != nil && s.Rng.IntN(3) == 0 {
				u = old.O.U
			}
			if !used[string(u)] {
				o.U = nonNil(u)
				break
			}
		}
	}
	if sc.Pfx && s.Rng.IntN(40) == 0 {
		// comb: 0^i 1 / (i+1) for i < depth in the IPv6 space plus the chain end: a trie as deep as the comb
		depth := 33 + s.Rng.IntN(40)
		var a [16]byte
		for i := 0; i < depth; i++ {
			b := a
			b[i/8] |= 1 << (7 - uint(i%8))
			o.Pfx = append(o.Pfx, netip.PrefixFrom(netip.AddrFrom16(b), i+1))
			if i%3 == 0 && i+2 <= 128 {
				c := b
				c[(i+1)/8] |= 1 << (7 - uint((i+1)%8))
				o.Pfx = append(o.Pfx, netip.PrefixFrom(netip.AddrFrom16(c), i+2), netip.PrefixFrom(netip.AddrFrom16(b), i+2))
			}
		}
		o.Pfx = append(o.Pfx, netip.PrefixFrom(netip.AddrFrom16(a), depth))
	} else if sc.Pfx {
		n := []int{0, 1, 1, 2, 3}[s.Rng.IntN(5)]
		if hasOld && s.Rng.IntN(3) == 0 {
			o.Pfx = append(o.Pfx, old.O.Pfx...)
			if len(o.Pfx) > 0 && s.Rng.IntN(2) == 0 {
				o.Pfx = o.Pfx[:s.Rng.IntN(len(o.Pfx))]
			}
			n = s.Rng.IntN(2)
		}
		if s.crowd != nil && s.Rng.IntN(10) < 7 && !slices.Contains(o.Pfx, *s.crowd) {
			// a crowd under one key: the entry of a non-unique LPM index grows to 5-20 objects, inserted in any primary-key order,
			// shrinks and grows again while snapshots are retained and transactions abort
			o.Pfx = append(o.Pfx, *s.crowd)
		}
		for i := 0; i < n; i++ {
			// bias to few prefixes so that several objects share one prefix
			if s.Rng.IntN(2) == 0 {
				o.Pfx = append(o.Pfx, netip.MustParsePrefix(pfxPool[s.Rng.IntN(4)]))
			} else {
				o.Pfx = append(o.Pfx, randomPfx(s.Rng))
			}
		}
	}
	if sc.LPM {
		used := map[string]bool{}
		for k, m := range working.Objs {
			if k != string(id) {
				for _, l := range m.O.L {
					used[lkeyBits(l)] = true
				}
			}
		}
		n := []int{0, 1, 1, 2}[s.Rng.IntN(4)]
		for i := 0; i < n; i++ {
			l := randomLKey(s.Rng)
			if !used[lkeyBits(l)] {
				used[lkeyBits(l)] = true
				o.L = append(o.L, l)
			}
		}
	}
	return o
}

func mergeObjs(old, new *Obj) *Obj {
	m := *new
	m.N = old.N*1000003 + new.N
	// keep the union of the tag keys, capped
	m.Tags = append(append([][]byte{}, new.Tags...), old.Tags...)
	if len(m.Tags) > 4 {
		m.Tags = m.Tags[:4]
	}
	return &m
}

func (s *Sim) pickExistingID(t *simTable, working *TableModel) ([]byte, bool) {
	if len(working.Objs) == 0 {
		return nil, false
	}
	keys := sortedKeys(working.Objs)
	return []byte(keys[s.Rng.IntN(len(keys))]), true
}

func sameOld(got *Obj, had bool, want MObj, wantHad bool) bool {
	if had != wantHad {
		return false
	}
	if !had {
		return got == nil
	}
	return got != nil && bytes.Equal(got.ID, want.O.ID) && got.N == want.O.N
}

// battery runs the query battery on txn for table t against model m. class is "query" for current states.
func (s *Sim) battery(what string, txn statedb.ReadTxn, t *simTable, m *TableModel, class string) {
	if s.Failed {
		return
	}
	probes := t.schema.genProbes(s.Rng, m, s.O.ProbesPerIndex)
	msg, c, _ := Battery(txn, t.tbl, m, probes, s.O.AnyTable)
	s.queryChecks += len(probes) + 3
	if msg != "" {
		if c == "revision" && class == "query" {
			s.Violate("rev", "snapshot-revision", "%s table %s: %s", what, t.name, msg)
			return
		}
		s.Violate(class, c, "%s table %s: %s", what, t.name, msg)
		return
	}
	if d := byRevisionOK(txn, t.tbl, m); d != "" {
		s.Violate("rev", "by-revision", "%s table %s: %s", what, t.name, d)
	}
}

// takeSnapshot retains a read transaction with the committed models and a transcript of a fixed probe set.
func (s *Sim) takeSnapshot(name string, txn statedb.ReadTxn) {
	if s.O.Retain == 0 || s.Failed {
		return
	}
	sn := &snapshot{name: name, txn: txn}
	for _, t := range s.Tabs {
		sn.models = append(sn.models, t.committed)
		probes := t.schema.genProbes(s.Rng, t.committed, max(2, s.O.ProbesPerIndex/2))
		sn.probes = append(sn.probes, probes)
		msg, c, tr := Battery(txn, t.tbl, t.committed, probes, false)
		if msg != "" {
			s.Violate("query", c, "new snapshot %s table %s: %s", name, t.name, msg)
			return
		}
		sn.transcripts = append(sn.transcripts, tr)
		// retain a few sequences for later re-iteration
		if len(probes) > 0 && s.Rng.IntN(2) == 0 {
			p := probes[s.Rng.IntN(len(probes))]
			if p.Kind != "get" {
				tbl := t.tbl
				var seqf func() []Obs
				q := p.query()
				switch p.Kind {
				case "list":
					sq := tbl.List(txn, q)
					seqf = func() []Obs { return observe(sq) }
				case "prefix":
					sq := tbl.Prefix(txn, q)
					seqf = func() []Obs { return observe(sq) }
				default:
					sq := tbl.LowerBound(txn, q)
					seqf = func() []Obs { return observe(sq) }
				}
				sn.seqs = append(sn.seqs, retSeq{desc: t.name + "." + p.String(), seq: seqf, want: seqf()})
			}
		}
	}
	if len(s.snaps) < s.O.Retain {
		s.snaps = append(s.snaps, sn)
	} else {
		s.snaps[s.Rng.IntN(len(s.snaps))] = sn
	}
}

// verifySnapshots re-queries every retained snapshot: transcript equality (frozenness) and model equality.
func (s *Sim) verifySnapshots(after string) {
	for _, sn := range s.snaps {
		if s.Failed {
			return
		}
		for i, t := range s.Tabs {
			if i >= len(sn.models) {
				break
			}
			msg, c, tr := Battery(sn.txn, t.tbl, sn.models[i], sn.probes[i], false)
			s.frozenChecks++
			if msg != "" {
				s.Violate("frozen", c, "snapshot %s re-queried after %s, table %s: %s", sn.name, after, t.name, msg)
				return
			}
			if tr != sn.transcripts[i] {
				s.Violate("frozen", "transcript", "snapshot %s re-queried after %s, table %s: transcript differs from the one taken at creation", sn.name, after, t.name)
				return
			}
		}
		for _, rs := range sn.seqs {
			got := rs.seq()
			s.frozenChecks++
			if fmtObs(got) != fmtObs(rs.want) {
				s.Violate("frozen", "retained-seq", "snapshot %s: retained sequence %s re-iterated after %s yields %s, first yielded %s", sn.name, rs.desc, after, fmtObs(got), fmtObs(rs.want))
				return
			}
		}
	}
}

func errName(err error) string {
	switch {
	case err == nil:
		return "nil"
	case errors.Is(err, statedb.ErrRevisionNotEqual):
		return "ErrRevisionNotEqual"
	case errors.Is(err, statedb.ErrObjectNotFound):
		return "ErrObjectNotFound"
	case errors.Is(err, statedb.ErrTableNotLockedForWriting):
		return "ErrTableNotLockedForWriting"
	case errors.Is(err, statedb.ErrTransactionClosed):
		return "ErrTransactionClosed"
	}
	return "other(" + err.Error() + ")"
}

// guardFor draws a guard revision for a compare-and-* operation.
func (s *Sim) guardFor(working *TableModel, cur MObj, exists bool) uint64 {
	switch x := s.Rng.IntN(10); {
	case x < 5 && exists:
		return cur.Rev
	case x < 7 && exists && cur.Rev > 1:
		return cur.Rev - 1 // stale
	case x < 8:
		// revision of another object
		for _, o := range working.Objs {
			if !exists || o.Rev != cur.Rev {
				return o.Rev
			}
		}
		return working.Rev + 5
	default:
		return working.Rev + 1 + uint64(s.Rng.IntN(3)) // future
	}
}

// writeOp applies one random write to table t inside wtxn. locked says whether t is in the transaction's table set.
func (s *Sim) writeOp(what string, wtxn statedb.WriteTxn, t *simTable, working *TableModel, locked bool) {
	tbl := t.tbl
	var id []byte
	if s.forced != nil {
		id = s.forced.id
	} else if ex, ok := s.pickExistingID(t, working); ok && (s.Rng.IntN(100) < 55 && s.bias != "grow" || s.bias == "shrink") {
		id = ex
	} else {
		id = s.genID(t.schema)
	}
	cur, exists := working.Objs[string(id)]
	revBefore := tbl.Revision(wtxn)
	if locked && revBefore != working.Rev {
		s.Violate("rev", "txn-revision", "%s %s: Revision(wtxn)=%d, model %d", what, t.name, revBefore, working.Rev)
		return
	}
	kind := s.Rng.IntN(100)
	if s.forced != nil {
		kind = s.forced.kind
	} else if t.schema.Wide && s.Rng.IntN(10) < 8 {
		switch s.bias {
		case "grow":
			kind = s.Rng.IntN(42) // Insert / InsertWatch / Modify
		case "shrink":
			kind = 42 + s.Rng.IntN(18) // Delete
		}
	}
	var (
		opName   string
		old      *Obj
		had      bool
		err      error
		wantErr  = "nil"
		insWatch <-chan struct{}
		newObj   *Obj // object now stored (nil = none / deleted)
		changed  bool
		wantOld  = cur
		wantHad  = exists
	)
	switch {
	case kind < 30: // Insert / InsertWatch
		o := s.genObj(t, working, id)
		if s.Rng.IntN(3) == 0 {
			opName = "InsertWatch"
			old, had, insWatch, err = tbl.InsertWatch(wtxn, o)
		} else {
			opName = "Insert"
			old, had, err = tbl.Insert(wtxn, o)
		}
		s.Logf("%s %s.%s(%s)", what, t.name, opName, o)
		newObj, changed = o, true
	case kind < 42: // Modify
		o := s.genObj(t, working, id)
		opName = "Modify"
		s.Logf("%s %s.Modify(%s)", what, t.name, o)
		old, had, err = tbl.Modify(wtxn, o, mergeObjs)
		if exists {
			newObj = mergeObjs(cur.O, o)
		} else {
			newObj = o
		}
		changed = true
	case kind < 60: // Delete
		opName = "Delete"
		s.Logf("%s %s.Delete(%x)", what, t.name, id)
		old, had, err = tbl.Delete(wtxn, &Obj{ID: id})
		changed = exists
	case kind < 78: // CompareAndSwap
		o := s.genObj(t, working, id)
		g := s.guardFor(working, cur, exists)
		opName = "CompareAndSwap"
		s.Logf("%s %s.CompareAndSwap(%d, %s)", what, t.name, g, o)
		old, had, err = tbl.CompareAndSwap(wtxn, g, o)
		switch {
		case !exists:
			wantErr, wantHad = "ErrObjectNotFound", false
		case cur.Rev != g:
			wantErr = "ErrRevisionNotEqual"
		default:
			newObj, changed = o, true
		}
	case kind < 94: // CompareAndDelete
		g := s.guardFor(working, cur, exists)
		opName = "CompareAndDelete"
		s.Logf("%s %s.CompareAndDelete(%d, %x)", what, t.name, g, id)
		old, had, err = tbl.CompareAndDelete(wtxn, g, &Obj{ID: id})
		switch {
		case !exists:
		case cur.Rev != g:
			wantErr = "ErrRevisionNotEqual"
		default:
			changed = true
		}
	default: // DeleteAll
		opName = "DeleteAll"
		s.Logf("%s %s.DeleteAll()", what, t.name)
		err = tbl.DeleteAll(wtxn)
		if !locked {
			// The statement demands only that nothing changes (checked by the batteries and the revision).
			if tbl.Revision(wtxn) != revBefore {
				s.Violate("rev", "unlocked-revision", "%s %s.DeleteAll on a table not held changed the revision", what, t.name)
			}
			s.retChecks++
			return
		}
		if err != nil {
			s.Violate("ret", "deleteall-error", "%s %s.DeleteAll returned %v", what, t.name, err)
			return
		}
		n := len(working.Objs)
		rev := tbl.Revision(wtxn)
		for k := range working.Objs {
			s.noteWatchWrite(what, t, k)
			s.noteDelete(t, k, working.Rev, rev)
			delete(working.Objs, k)
		}
		if n > 0 && rev <= working.Rev || n == 0 && rev != working.Rev {
			s.Violate("rev", "deleteall", "%s %s.DeleteAll of %d objects: revision %d -> %d", what, t.name, n, working.Rev, rev)
		}
		working.Rev = rev
		s.retChecks++
		return
	}
	s.retChecks++
	if !locked {
		// A write attempted on a table the transaction does not hold changes nothing and reports the documented error.
		if errName(err) != "ErrTableNotLockedForWriting" {
			s.Violate("ret", "unlocked-error", "%s %s.%s on a table not held: err=%s want ErrTableNotLockedForWriting", what, t.name, opName, errName(err))
		}
		if tbl.Revision(wtxn) != revBefore {
			s.Violate("rev", "unlocked-revision", "%s %s.%s on a table not held changed the revision", what, t.name, opName)
		}
		return
	}
	if errName(err) != wantErr {
		s.Violate("ret", "error/"+opName, "%s %s.%s: err=%s want %s (exists=%v currentRev=%d)", what, t.name, opName, errName(err), wantErr, exists, cur.Rev)
		return
	}
	if !sameOld(old, had, wantOld, wantHad) {
		s.Violate("ret", "old/"+opName, "%s %s.%s: returned old=%s hadOld=%v, model old=%s hadOld=%v", what, t.name, opName, old, had, wantOld.O, wantHad)
		return
	}
	rev := tbl.Revision(wtxn)
	s.revChecks++
	if !changed || wantErr != "nil" {
		if rev != working.Rev {
			s.Violate("rev", "noop-changed-revision/"+opName, "%s %s.%s changed nothing but the revision went %d -> %d", what, t.name, opName, working.Rev, rev)
		}
		return
	}
	if rev <= working.Rev {
		s.Violate("rev", "not-increasing/"+opName, "%s %s.%s: revision %d -> %d is not strictly increasing", what, t.name, opName, working.Rev, rev)
		return
	}
	s.noteWatchWrite(what, t, string(id))
	if insWatch != nil && s.O.Watches > 0 {
		s.retainWatch(&simWatch{ch: insWatch, t: t, p: Probe{Index: "id", Kind: "insertwatch", Key: string(id)}, origin: what + " InsertWatch", inTxn: what, isIns: true, insKey: string(id)}, true)
	}
	if newObj != nil {
		s.noteInsert(t, string(id))
	} else {
		s.noteDelete(t, string(id), working.Rev, rev)
	}
	working.Rev = rev
	if newObj != nil {
		working.Objs[string(id)] = MObj{newObj, rev}
		// the object is reported with the revision of the write that produced it
		got, grev, ok := tbl.Get(wtxn, IDIndex.Query(id))
		if !ok || got.N != newObj.N || grev != rev {
			s.Violate("rev", "object-revision/"+opName, "%s %s.%s: Get after write returned (%s, rev %d, %v), want n=%d rev=%d", what, t.name, opName, got, grev, ok, newObj.N, rev)
		}
	} else {
		delete(working.Objs, string(id))
	}
}

// finishedHandleOps exercises a write handle after Commit/Abort.
func (s *Sim) finishedHandleOps(what string, wtxn statedb.WriteTxn, t *simTable) {
	o := &Obj{ID: s.genID(t.schema), N: s.newN()}
	var err error
	var name string
	switch s.Rng.IntN(5) {
	case 0:
		name = "Insert"
		_, _, err = t.tbl.Insert(wtxn, o)
	case 1:
		name = "Modify"
		_, _, err = t.tbl.Modify(wtxn, o, mergeObjs)
	case 2:
		name = "Delete"
		_, _, err = t.tbl.Delete(wtxn, o)
	case 3:
		name = "CompareAndSwap"
		_, _, err = t.tbl.CompareAndSwap(wtxn, 1, o)
	default:
		name = "CompareAndDelete"
		_, _, err = t.tbl.CompareAndDelete(wtxn, 1, o)
	}
	s.Logf("%s finished-handle %s.%s", what, t.name, name)
	s.retChecks++
	if errName(err) != "ErrTransactionClosed" {
		s.Violate("ret", "closed-error", "%s %s.%s through a finished transaction: err=%s want ErrTransactionClosed", what, t.name, name, errName(err))
	}
	if wtxn.Commit() != nil {
		s.Violate("ret", "double-commit", "%s: Commit() on a finished transaction returned a snapshot", what)
	}
	wtxn.Abort()
}

// RunTxn runs one random write transaction.
func (s *Sim) RunTxn(i int) {
	if s.forceSet == nil && s.forced == nil && s.O.Watches > 0 && s.open == nil && s.Rng.IntN(30) == 0 {
		for _, t := range s.Tabs {
			if t.schema.Wide && !s.Failed {
				s.collapseMacro(i, t)
			}
		}
	}
	what := fmt.Sprintf("t%d", i)
	// table set
	var set []*simTable
	inSet := map[*simTable]bool{}
	for _, t := range s.Tabs {
		if s.forceSet != nil {
			break
		}
		if s.Rng.IntN(2) == 0 {
			set = append(set, t)
			inSet[t] = true
		}
	}
	for _, t := range s.forceSet {
		set = append(set, t)
		inSet[t] = true
	}
	if len(set) == 0 {
		t := s.Tabs[s.Rng.IntN(len(s.Tabs))]
		set = append(set, t)
		inSet[t] = true
	}
	metas := []statedb.TableMeta{}
	names := []string{}
	for _, t := range set {
		metas = append(metas, t.tbl)
		names = append(names, t.name)
		if s.Rng.IntN(8) == 0 {
			metas = append(metas, t.tbl) // duplicates are allowed
		}
	}
	s.Rng.Shuffle(len(metas), func(a, b int) { metas[a], metas[b] = metas[b], metas[a] })
	s.Logf("%s WriteTxn(%s)", what, strings.Join(names, ","))
	wtxn := s.DB.WriteTxn(metas...)
	prevOpen := s.open
	s.open = wtxn
	s.txnBefore = s.closedStates()
	defer func() { s.open = prevOpen; s.txnBefore = nil }()
	working := map[*simTable]*TableModel{}
	for _, t := range s.Tabs {
		if inSet[t] {
			working[t] = t.committed.Clone()
		} else {
			working[t] = t.committed
		}
	}
	nops := s.Rng.IntN(s.O.MaxOps + 1)
	s.bias = []string{"", "grow", "grow", "shrink"}[s.Rng.IntN(4)]
	if s.forced != nil {
		// directed transaction of one (or a few) given operations, with nothing in between (macro steps)
		nops = 0
		s.writeOp(what, wtxn, set[0], working[set[0]], true)
		first := s.forced
		for k := range s.forcedMore {
			if s.Failed {
				break
			}
			s.forced = &s.forcedMore[k]
			s.writeOp(what, wtxn, set[0], working[set[0]], true)
		}
		s.forced = first
	}
	if s.forced == nil {
		for _, t := range set {
			if t.schema.Wide && s.Rng.IntN(5) == 0 {
				// sweep: the key "a" (or "b") itself plus, in random order, up to all 64 one-letter extensions
				// (the node under it passes every radix node size with its own leaf set), or the same downwards
				first := "ab"[s.Rng.IntN(2)]
				down := s.Rng.IntN(3) == 0
				perm := s.Rng.Perm(len(t.schema.IDAlphabet))
				n := 40 + s.Rng.IntN(len(perm)-39)
				s.Logf("%s %s sweep first=%c down=%v n=%d", what, t.name, first, down, n)
				if !down || s.Rng.IntN(2) == 0 {
					s.forced = &forcedOp{kind: 0, id: []byte{first}}
					s.writeOp(what, wtxn, t, working[t], true)
				}
				for k := 0; k < n && !s.Failed; k++ {
					kind := 0
					if down {
						kind = 42
					}
					s.forced = &forcedOp{kind: kind, id: []byte{first, t.schema.IDAlphabet[perm[k]]}}
					s.writeOp(what, wtxn, t, working[t], true)
					s.forced = nil
					if k%7 == 6 || k >= 46 && k <= 50 {
						s.battery(what+" in-txn", wtxn, t, working[t], "query")
					}
				}
				s.forced = nil
			}
			if t.schema.LongIDs && s.Rng.IntN(6) == 0 {
				// deep chain: "/d", "/d/d", ... all present at once (radix tree depth = chain length, up to 60)
				depth := 30 + s.Rng.IntN(31)
				s.Logf("%s %s chain depth=%d", what, t.name, depth)
				for i := 1; i <= depth && !s.Failed; i++ {
					s.forced = &forcedOp{kind: 0, id: bytes.Repeat([]byte("/d"), i)}
					s.writeOp(what, wtxn, t, working[t], true)
					s.forced = nil
				}
			}
		}
	}
	for j := 0; j < nops && !s.Failed; j++ {
		t := set[s.Rng.IntN(len(set))]
		if len(set) < len(s.Tabs) && s.Rng.IntN(12) == 0 {
			// a table the transaction does not hold
			for _, u := range s.Tabs {
				if !inSet[u] {
					t = u
				}
			}
		}
		if s.O.Initializers && inSet[t] && s.Rng.IntN(12) == 0 {
			s.initOp(what, wtxn, t, working[t])
			continue
		}
		switch x := s.Rng.IntN(100); {
		case x < 72:
			s.writeOp(what, wtxn, t, working[t], inSet[t])
			if s.Rng.IntN(4) == 0 {
				s.checkWSeqs("inside "+what, what, working)
			}
		case x < 90:
			s.Logf("%s battery(wtxn) %s", what, t.name)
			s.battery(what+" in-txn", wtxn, t, working[t], "query")
			if s.Rng.IntN(3) == 0 {
				s.takeWSeq(what, wtxn, t, working[t])
			}
		case x < 93 && s.O.Watches > 0:
			s.takeWatches(what+" in-txn", wtxn, t, working[t], false, map[bool]string{true: what, false: ""}[inSet[t]])
		case x < 96 && s.O.Iterators:
			s.iterOp(what, wtxn, t, inSet[t])
		default:
			// another reader while the transaction is pending sees only committed state
			s.Logf("%s pending-snapshot", what)
			rt := s.DB.ReadTxn()
			u := s.Tabs[s.Rng.IntN(len(s.Tabs))]
			s.battery(what+" snapshot-while-pending", rt, u, u.committed, "query")
			s.takeSnapshot(what+"-pending", rt)
		}
	}
	if s.Failed {
		wtxn.Abort()
		return
	}
	if s.forced == nil && s.Rng.IntN(100) < s.O.AbortPct {
		s.Logf("%s Abort", what)
		s.newInitFns = nil // done functions of registrations in an aborted transaction are never called
		s.finishWSeqs(what, working)
		wtxn.Abort()
		s.checkWSeqs("after Abort of "+what, "", nil)
		s.aborts++
		s.abortIterators(what, wtxn)
		s.watchesAfterAbort(what, s.txnBefore)
		rt := s.DB.ReadTxn()
		for _, t := range s.Tabs {
			s.battery(what+" after-abort", rt, t, t.committed, "abort")
		}
		s.finishedHandleOps(what, wtxn, set[0])
		s.verifySnapshots(what + " (aborted)")
		return
	}
	s.Logf("%s Commit", what)
	s.txnChanged = map[*simTable]bool{}
	for _, t := range set {
		s.txnChanged[t] = working[t].Rev != t.committed.Rev
	}
	s.finishWSeqs(what, working)
	rtxn := wtxn.Commit()
	s.checkWSeqs("after Commit of "+what, "", nil)
	for _, f := range s.newInitFns {
		s.initFns = append(s.initFns, f)
	}
	s.newInitFns = nil
	s.waitRegistration()
	s.commits++
	for _, t := range set {
		t.committed = working[t]
	}
	s.commitIterators(what)
	for _, t := range set {
		s.noTrackerCheck(what, t)
	}
	s.watchesAfterCommit(what)
	fresh := s.DB.ReadTxn()
	for _, t := range s.Tabs {
		s.remoteBattery(what+" after commit", t, t.committed)
		s.battery(what+" commit-snapshot", rtxn, t, t.committed, "query")
		if s.Rng.IntN(2) == 0 {
			s.battery(what+" fresh-snapshot", fresh, t, t.committed, "query")
		}
	}
	if s.Rng.IntN(2) == 0 {
		s.takeSnapshot(what+"-commit", rtxn)
	} else {
		s.takeSnapshot(what+"-fresh", fresh)
	}
	if s.Rng.IntN(3) == 0 {
		s.finishedHandleOps(what, wtxn, set[0])
	}
	if s.O.Watches > 0 {
		for _, t := range s.Tabs {
			if s.Rng.IntN(2) == 0 {
				s.takeWatches(what+" fresh-snapshot", fresh, t, t.committed, true, "")
			}
		}
		if len(s.snaps) > 0 && s.Rng.IntN(3) == 0 {
			sn := s.snaps[s.Rng.IntN(len(s.snaps))]
			ti := s.Rng.IntN(len(sn.models))
			s.takeWatches(what+" retained-snapshot "+sn.name, sn.txn, s.Tabs[ti], sn.models[ti], false, "")
		}
	}
	s.verifySnapshots(what)
}

// NewSim creates the database and tables of a history.
func NewSim(r *vkit.Run, idx int, o Opts) *Sim {
	s := &Sim{R: r, Idx: idx, Rng: r.Rand(idx), O: o, fp: vkit.NewHash()}
	s.Handle = fmt.Sprintf("sim%d", idx)
	s.metrics = newMetricsRec()
	s.DB = statedb.New(statedb.WithMetrics(s.metrics)).NewHandle(s.Handle)
	pick := o.SchemaPick
	if pick == nil {
		for i := range Schemas {
			pick = append(pick, i)
		}
	}
	nt := 1 + s.Rng.IntN(o.Tables)
	if s.Rng.IntN(3) == 0 {
		p := netip.MustParsePrefix(pfxPool[s.Rng.IntN(len(pfxPool))])
		s.crowd = &p
	}
	for i := 0; i < nt; i++ {
		sc := Schemas[pick[s.Rng.IntN(len(pick))]]
		name := fmt.Sprintf("t%d%s", i, sc.Name)
		tbl, err := sc.NewTable(s.DB, name)
		if err != nil {
			panic(err)
		}
		s.Tabs = append(s.Tabs, &simTable{name: name, schema: sc, tbl: tbl, committed: &TableModel{Objs: map[string]MObj{}}, settled: true})
		s.Logf("table %s schema %s", name, sc.Name)
	}
	return s
}

// Finish accounts for the case.
func (s *Sim) Finish(nontrivial bool) {
	s.R.Case(s.fp.Sum(), nontrivial)
	s.R.Count("frozen_rechecks", int64(s.frozenChecks))
	s.R.Count("query_checks", int64(s.queryChecks))
	s.R.Count("return_value_checks", int64(s.retChecks))
	s.R.Count("revision_checks", int64(s.revChecks))
	s.R.Count("change_stream_checks", int64(s.changeChecks))
	s.R.Count("gc_checks", int64(s.gcChecks))
	s.R.Count("gc_paused_at_afterScan", int64(s.gcPauses))
	s.R.Count("close_paused_before_root_store", int64(s.closePauses))
	s.R.Count("registrations_into_commit", int64(s.registrations))
	s.R.Count("watch_handouts", int64(s.watchHandouts))
	s.R.Count("watch_verdicts", int64(s.watchVerdicts))
	s.R.Count("commits", int64(s.commits))
	s.R.Count("aborts", int64(s.aborts))
	s.R.Count("retained_wtxn_sequences_reranged", int64(s.wseqChecks))
	s.R.Count("remote_queries_compared", int64(s.remoteChecks))
	s.R.Count("prefix_key_collapse_macros", int64(s.collapses))
	s.R.Count("dead_objects_resurrected_under_the_collector", int64(s.resurrections))
	s.R.Count("registrations_while_a_close_is_queued", int64(s.closeQueued))
	s.R.Count("runtime_gc_cycles_between_registrations", int64(s.gcCycles))
	if s.R.WantSample() {
		tail := s.Log
		if len(tail) > 45 {
			tail = tail[:45]
		}
		s.R.Sample(map[string]any{"case": s.Idx, "first_ops": tail, "total_ops": len(s.Log)})
	}
}

// Counters for callers.
func (s *Sim) FrozenChecks() int  { return s.frozenChecks }
func (s *Sim) QueryChecks() int   { return s.queryChecks }
func (s *Sim) RetChecks() int     { return s.retChecks }
func (s *Sim) RevChecks() int     { return s.revChecks }
func (s *Sim) ChangeChecks() int  { return s.changeChecks }
func (s *Sim) Commits() int       { return s.commits }
func (s *Sim) WatchVerdicts() int { return s.watchVerdicts }
func (s *Sim) GCChecks() int      { return s.gcChecks }
func (s *Sim) GCPauses() int      { return s.gcPauses }
func (s *Sim) Aborts() int        { return s.aborts }

// Recover turns a panic inside the history into a violation of class "panic" (always reported).
func (s *Sim) Recover() {
	if p := recover(); p != nil {
		tail := s.Log
		if len(tail) > 250 {
			tail = tail[len(tail)-250:]
		}
		msg := fmt.Sprint(p)
		s.Failed = true
		if s.open != nil {
			func() {
				defer func() { recover() }()
				s.open.Abort()
			}()
			s.open = nil
		}
		s.R.Violation("panic/"+msg[:min(60, len(msg))], s.Idx, map[string]any{"panic": msg, "history": tail})
	}
}

// collapseMacro (wide schema, watch histories): the empty key is a prefix of every other key; with all other keys under one
// first byte the root of the primary index holds that key and has a single inner child. Watch channels of that child's prefix and
// of absent keys below it are taken, and then ONE transaction deletes the prefix key (the child moves up into the root's place)
// and inserts below the child, with no query in between.
func (s *Sim) collapseMacro(i int, t *simTable) {
	one := func(k int, ops ...forcedOp) {
		if s.Failed {
			return
		}
		s.forceSet, s.forced, s.forcedMore = []*simTable{t}, &ops[0], ops[1:]
		s.RunTxn(20000 + i*200 + k)
		s.forceSet, s.forced, s.forcedMore = nil, nil, nil
	}
	k := 0
	for _, id := range sortedKeys(t.committed.Objs) {
		if len(id) > 0 && id[0] != 'a' {
			k++
			one(k, forcedOp{42, []byte(id)})
		}
	}
	if _, ok := t.committed.Objs[""]; !ok {
		k++
		one(k, forcedOp{0, []byte{}})
	}
	var absent []byte
	present := 0
	for _, c := range t.schema.IDAlphabet {
		if _, ok := t.committed.Objs["a"+string(c)]; ok {
			present++
		} else if absent == nil {
			absent = []byte{'a', c}
		}
	}
	for _, c := range t.schema.IDAlphabet {
		if present >= 2 {
			break
		}
		if _, ok := t.committed.Objs["a"+string(c)]; !ok && string([]byte{'a', c}) != string(absent) {
			k++
			one(k, forcedOp{0, []byte{'a', c}})
			present++
		}
	}
	if s.Failed || absent == nil {
		return
	}
	what := fmt.Sprintf("m%d", i)
	s.Logf("%s collapse macro on %s: watches below the single child of the root, then Delete('') + Insert(%x) in one transaction", what, t.name, absent)
	s.takeWatchProbes(what+" snapshot", s.DB.ReadTxn(), t, t.committed, true, "", []Probe{
		{Index: "id", Kind: "prefix", Key: "a"}, {Index: "id", Kind: "get", Key: string(absent)}, {Index: "id", Kind: "list", Key: string(absent)}, {Index: "id", Kind: "prefix", Key: string(absent)}})
	s.collapses++
	one(k+1, forcedOp{42, []byte{}}, forcedOp{0, absent})
}
