package dbsim

import (
	"fmt"

	"github.com/cilium/statedb"
)

// simWatch is a retained watch channel with the query it came from.
type simWatch struct {
	ch      <-chan struct{}
	t       *simTable
	p       Probe       // Kind may also be "all"
	base    *TableModel // committed state the query result refers to (nil while obtained inside a still-open transaction)
	baseSeq string      // expected result at base (canonical)
	origin  string
	inTxn   string // name of the open write transaction the query was made in
	insKey  string // InsertWatch: primary key
	isIns   bool
	pending bool // InsertWatch: the key was changed again; must be closed when that transaction commits
	pendIn  string
}

// tableWide: AllWatch closes on any change to the table. LowerBoundWatch returns the root channel of the queried
// index, which closes on any change to that index (not to the table); it is held to "result changed" like the others.
func (w *simWatch) tableWide() bool {
	return w.p.Kind == "all"
}

func expSeq(m *TableModel, p Probe) string {
	if p.Kind == "all" {
		var es []Entry
		for _, o := range m.sortedObjs() {
			es = append(es, Entry{string(o.O.ID), o})
		}
		return fmtEntries(es)
	}
	exp := m.expected(p)
	if p.Kind == "get" && len(exp) > 1 {
		exp = exp[:1]
	}
	return fmtEntries(exp)
}

func (s *Sim) retainWatch(w *simWatch, mustBeOpen bool) {
	s.watchHandouts++
	if mustBeOpen && isClosed(w.ch) {
		s.Violate("watch", "closed-at-handout/"+w.p.Index+"/"+w.p.Kind, "%s: watch channel of %s.%s is already closed when handed out", w.origin, w.t.name, w.p)
		return
	}
	if isClosed(w.ch) {
		return
	}
	if len(s.watches) < s.O.Watches {
		s.watches = append(s.watches, w)
	} else {
		i := s.Rng.IntN(len(s.watches))
		if !s.watches[i].pending && s.watches[i].inTxn == "" {
			s.watches[i] = w
		}
	}
}

// takeWatches runs a few *Watch queries on txn (a snapshot of the latest committed state if fresh, or the open
// write transaction inTxn) and retains the channels.
func (s *Sim) takeWatches(what string, txn statedb.ReadTxn, t *simTable, m *TableModel, fresh bool, inTxn string) {
	if s.O.Watches == 0 || s.Failed {
		return
	}
	n := 1 + s.Rng.IntN(3)
	probes := t.schema.genProbes(s.Rng, m, 1)
	s.Rng.Shuffle(len(probes), func(i, j int) { probes[i], probes[j] = probes[j], probes[i] })
	if len(probes) > n {
		probes = probes[:n]
	}
	s.takeWatchProbes(what, txn, t, m, fresh, inTxn, probes)
	if s.Failed {
		return
	}
	if s.Rng.IntN(3) == 0 {
		_, ch := t.tbl.AllWatch(txn)
		w := &simWatch{ch: ch, t: t, p: Probe{Index: "id", Kind: "all"}, origin: what, inTxn: inTxn}
		if inTxn == "" {
			w.base, w.baseSeq = m, expSeq(m, w.p)
		}
		s.Logf("%s watch %s.all", what, t.name)
		s.retainWatch(w, fresh || inTxn != "")
	}
}

// takeWatchProbes retains the watch channels of the given queries.
func (s *Sim) takeWatchProbes(what string, txn statedb.ReadTxn, t *simTable, m *TableModel, fresh bool, inTxn string, probes []Probe) {
	if s.O.Watches == 0 || s.Failed {
		return
	}
	for _, p := range probes {
		obs, ch := p.run(txn, t.tbl)
		if d := m.check(p, obs); d != "" {
			s.Violate("query", "probe/"+p.Index+"/"+p.Kind, "%s table %s: %s", what, t.name, d)
			return
		}
		w := &simWatch{ch: ch, t: t, p: p, origin: what, inTxn: inTxn}
		if inTxn == "" {
			w.base, w.baseSeq = m, expSeq(m, p)
		}
		s.Logf("%s watch %s.%s", what, t.name, p)
		s.retainWatch(w, fresh || inTxn != "")
	}
}

// noteWatchWrite is called for each successful write to a primary key inside transaction 'what'.
func (s *Sim) noteWatchWrite(what string, t *simTable, id string) {
	for _, w := range s.watches {
		if w.isIns && w.t == t && w.insKey == id && !w.pending {
			w.pending, w.pendIn = true, what
		}
	}
}

func (s *Sim) closedStates() map[*simWatch]bool {
	m := make(map[*simWatch]bool, len(s.watches))
	for _, w := range s.watches {
		m[w] = isClosed(w.ch)
	}
	return m
}

// noNewCloses asserts that no retained channel closed since 'before' (used at the hook points inside Commit before
// the root is stored, and after Abort).
func (s *Sim) noNewCloses(before map[*simWatch]bool, when string) {
	for _, w := range s.watches {
		if c, ok := before[w]; ok && !c && isClosed(w.ch) {
			s.Violate("watch", "closed-"+when+"/"+w.p.Index+"/"+w.p.Kind, "watch channel of %s.%s (%s) closed %s", w.t.name, w.p, w.origin, when)
			return
		}
	}
	s.watchVerdicts++
}

// watchesAfterAbort: nothing may have been closed by the aborted transaction; its own channels are dropped.
func (s *Sim) watchesAfterAbort(what string, before map[*simWatch]bool) {
	for _, w := range s.watches {
		if c, ok := before[w]; ok && !c && isClosed(w.ch) {
			// reported under both classes: C06 (never closed by an aborted transaction) and C02 (abort leaves no trace)
			cls := "watch"
			if !s.O.Report["watch"] {
				cls = "abortwatch"
			}
			s.Violate(cls, "closed-by-abort/"+w.p.Index+"/"+w.p.Kind, "%s: watch channel of %s.%s (%s) was closed by the aborted transaction", what, w.t.name, w.p, w.origin)
			break
		}
	}
	s.watchVerdicts++
	keep := s.watches[:0]
	for _, w := range s.watches {
		if w.inTxn == what {
			continue
		}
		if w.pending && w.pendIn == what {
			w.pending, w.pendIn = false, ""
		}
		keep = append(keep, w)
	}
	s.watches = keep
}

// watchesAfterCommit gives the must-close verdicts when Commit has returned.
func (s *Sim) watchesAfterCommit(what string) {
	keep := s.watches[:0]
	for _, w := range s.watches {
		if s.Failed {
			return
		}
		cur := w.t.committed
		if w.inTxn == what {
			// obtained inside this transaction: from now on held to later transactions
			w.inTxn = ""
			if !w.isIns {
				w.base, w.baseSeq = cur, expSeq(cur, w.p)
			}
			if !w.isIns || !w.pending {
				if !isClosed(w.ch) {
					keep = append(keep, w)
				}
				continue
			}
		}
		must := false
		switch {
		case w.isIns:
			must = w.pending
		case w.tableWide():
			must = cur.Rev != w.base.Rev
		default:
			must = cur != w.base && expSeq(cur, w.p) != w.baseSeq
		}
		if must {
			s.watchVerdicts++
			if !isClosed(w.ch) {
				kind := w.p.Index + "/" + w.p.Kind
				if w.isIns {
					kind = "insertwatch"
				}
				s.Violate("watch", "not-closed/"+kind, "%s: watch channel of %s.%s (from %s) is still open after Commit returned although its result changed: was %s, now %s (table revision %d -> %d)",
					what, w.t.name, w.p, w.origin, w.baseSeq, expSeq(cur, w.p), baseRev(w), cur.Rev)
				return
			}
			// the change must be visible to a reader woken by the channel
			if rev := w.t.tbl.Revision(s.DB.ReadTxn()); w.base != nil && rev <= w.base.Rev && cur.Rev != w.base.Rev {
				s.Violate("watch", "closed-before-visible", "%s: channel of %s.%s closed but a fresh ReadTxn shows revision %d <= %d", what, w.t.name, w.p, rev, w.base.Rev)
				return
			}
			continue
		}
		if isClosed(w.ch) {
			continue // spurious close (allowed), drop
		}
		keep = append(keep, w)
	}
	s.watches = keep
}

func baseRev(w *simWatch) uint64 {
	if w.base == nil {
		return 0
	}
	return w.base.Rev
}

// InstallCommitPhaseMonitor returns a function suitable for hookctl.OnPoint that asserts, in the committing goroutine,
// that no retained channel closes before the root is stored.
func (s *Sim) CommitPhaseMonitor() func(point, handle string) {
	return func(point, handle string) {
		if s.txnBefore == nil || s.Failed {
			return
		}
		switch point {
		case "commit.beforeRootLock", "commit.rootLocked":
			s.noNewCloses(s.txnBefore, "before-root-store("+point+")")
			s.Seen("commit-phase:" + point)
		case "commit.afterNotify":
			// woken readers see the new revision: every channel closed by now belongs to a table whose fresh revision is newer
			for _, w := range s.watches {
				// (a commit that changes nothing - e.g. only a rejected compare-and-swap - may close channels spuriously; there is
				// no change that could be invisible then)
				if c, ok := s.txnBefore[w]; ok && !c && isClosed(w.ch) && w.base != nil && s.txnChanged[w.t] {
					if rev := w.t.tbl.Revision(s.DB.ReadTxn()); rev <= w.base.Rev {
						s.Violate("watch", "closed-before-visible", "at %s: channel of %s.%s closed but a fresh ReadTxn shows revision %d <= %d", point, w.t.name, w.p, rev, w.base.Rev)
					}
				}
			}
			s.Seen("commit-phase:" + point)
		}
	}
}

func (s *Sim) Seen(k string) { s.R.Seen("points", k) }

var _ = fmt.Sprint
