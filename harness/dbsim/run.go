package dbsim

import (
	"fmt"
	"math/rand/v2"
	"testing"
	"testing/synctest"
	"time"

	"github.com/cilium/statedb"

	"verifharness/hookctl"
	"verifharness/vkit"
)

// RunPlain runs a history of write transactions without a started DB (no graveyard worker).
func RunPlain(r *vkit.Run, idx int, o Opts, nontrivial func(*Sim) bool) {
	s := NewSim(r, idx, o)
	if o.OnSim != nil {
		defer o.OnSim(s)()
	}
	defer func() {
		s.remoteStop()
		s.Finish(nontrivial(s))
	}()
	defer s.Recover()
	s.remoteStart()
	for i := 0; i < o.Txns && !s.Failed; i++ {
		s.RunTxn(i)
	}
}

// RunBubble runs a history inside a synctest bubble with the DB started: change iterators, graveyard collection
// on virtual time, retained snapshots.
func RunBubble(t *testing.T, r *vkit.Run, idx int, o Opts, nontrivial func(*Sim) bool) {
	stop := r.Watchdog(idx, 5*time.Minute, nil)
	defer stop()
	synctest.Test(t, func(t *testing.T) {
		s := NewSim(r, idx, o)
		if o.OnSim != nil {
			defer o.OnSim(s)()
		}
		s.DB.VerifSetGCInterval(time.Millisecond)
		if o.Iterators && s.Rng.IntN(3) == 0 {
			// change iterators that exist before the database's worker is started
			for k := 0; k < 1+s.Rng.IntN(2); k++ {
				s.createIter("pre-start", s.Tabs[s.Rng.IntN(len(s.Tabs))])
			}
		}
		s.DB.Start()
		s.O.Sleep = func() {
			time.Sleep(time.Duration(1+s.Rng.IntN(4)) * time.Millisecond)
			synctest.Wait()
		}
		defer func() {
			func() {
				defer s.Recover()
				s.CloseIterators()
			}()
			s.DB.Stop()
			s.Finish(nontrivial(s))
		}()
		var pause *hookctl.Pause
		defer func() {
			if pause != nil {
				pause.Resume()
			}
		}()
		defer s.Recover()
		step := func(i int) {
			if o.Iterators && s.Rng.IntN(100) < 45 {
				s.IterStep(i)
			} else {
				s.RunTxn(i)
			}
		}
		for i := 0; i < o.Txns && !s.Failed; i++ {
			if o.ForceGC && o.Ctl != nil && pause == nil {
				pause = o.Ctl.PauseAt(s.Handle, "gc.afterScan")
			}
			step(i)
			if pause != nil && pause.Reached() {
				// the collector is between its lock-free scan and its write transaction: change the table under it
				s.gcPauses++
				s.Logf("collector paused at gc.afterScan")
				if s.Rng.IntN(3) == 0 {
					// bring back every object that was ever deleted and is absent now: whatever the collector saw in its
					// scan is no longer dead when it gets its write transaction (it must still finish that transaction)
					for _, t := range s.Tabs {
						seen := map[string]bool{}
						for _, d := range t.delLog {
							if _, live := t.committed.Objs[d.ID]; !live && !seen[d.ID] && !s.Failed {
								seen[d.ID] = true
								s.forceSet, s.forced = []*simTable{t}, &forcedOp{0, []byte(d.ID)}
								s.RunTxn(9000 + i*20 + len(seen))
								s.forceSet, s.forced = nil, nil
								s.resurrections++
							}
						}
					}
				}
				for k := 0; k < 1+s.Rng.IntN(3) && !s.Failed; k++ {
					step(1000 + i*10 + k)
				}
				s.Logf("collector resumed")
				pause.Resume()
				pause = nil
				s.O.Sleep()
			}
			if s.Rng.IntN(4) == 0 {
				s.O.Sleep()
			}

			if o.Quiesce && s.Rng.IntN(12) == 0 {
				if pause != nil {
					pause.Resume()
					pause = nil
				}
				s.Quiesce(fmt.Sprintf("q%d", i))
			}
		}
		if pause != nil {
			pause.Resume()
			pause = nil
		}
		if o.Quiesce {
			s.Quiesce("final")
		}
	})
}

// TableInfo exposes a simulated table to concurrent readers.
type TableInfo struct {
	Name   string
	Schema Schema
	Table  statedb.Table[*Obj]
}

// Tables lists the tables of the history.
func (s *Sim) Tables() []TableInfo {
	var out []TableInfo
	for _, t := range s.Tabs {
		out = append(out, TableInfo{t.name, t.schema, t.tbl})
	}
	return out
}

// ModelFromSnapshot reconstructs a table model from the primary index of a snapshot (All).
func ModelFromSnapshot(txn statedb.ReadTxn, tbl statedb.Table[*Obj]) *TableModel {
	m := &TableModel{Objs: map[string]MObj{}, Rev: tbl.Revision(txn), Pending: append([]string(nil), tbl.PendingInitializers(txn)...)}
	for o, rev := range tbl.All(txn) {
		m.Objs[string(o.ID)] = MObj{o, rev}
	}
	return m
}

// GenProbes draws probes for a table state.
func (ti TableInfo) GenProbes(rng *rand.Rand, m *TableModel, n int) []Probe {
	return ti.Schema.genProbes(rng, m, n)
}
