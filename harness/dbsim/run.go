package dbsim

import (
	"testing"
	"testing/synctest"
	"time"

	"verifharness/vkit"
)

// RunPlain runs a history of write transactions without a started DB (no graveyard worker).
func RunPlain(r *vkit.Run, idx int, o Opts, nontrivial func(*Sim) bool) {
	s := NewSim(r, idx, o)
	if o.OnSim != nil {
		defer o.OnSim(s)()
	}
	defer func() {
		s.Finish(nontrivial(s))
	}()
	defer s.Recover()
	for i := 0; i < o.Txns && !s.Failed; i++ {
		s.RunTxn(i)
	}
}

// RunBubble runs a history inside a synctest bubble with the DB started: change iterators, graveyard collection
// on virtual time, retained snapshots.
func RunBubble(t *testing.T, r *vkit.Run, idx int, o Opts, nontrivial func(*Sim) bool) {
	synctest.Test(t, func(t *testing.T) {
		s := NewSim(r, idx, o)
		if o.OnSim != nil {
			defer o.OnSim(s)()
		}
		s.DB.VerifSetGCInterval(time.Millisecond)
		s.DB.Start()
		s.O.Sleep = func() {
			time.Sleep(time.Duration(1+s.Rng.IntN(4)) * time.Millisecond)
			synctest.Wait()
		}
		defer func() {
			func() {
				defer s.Recover()
				s.CloseIterators()
			}()
			s.DB.Stop()
			s.Finish(nontrivial(s))
		}()
		defer s.Recover()
		for i := 0; i < o.Txns && !s.Failed; i++ {
			if o.Iterators && s.Rng.IntN(100) < 45 {
				s.IterStep(i)
			} else {
				s.RunTxn(i)
			}
			if s.Rng.IntN(4) == 0 {
				s.O.Sleep()
			}
		}
	})
}
