package dbsim

import (
	"sync"
	"testing"

	"verifharness/vkit"
)

// BubbleCases runs n bubble histories on several workers (each history is its own synctest bubble in a subtest).
func BubbleCases(t *testing.T, r *vkit.Run, n int, o Opts, nontrivial func(*Sim) bool) {
	if part, idx, ok := vkit.ReplayCase(); ok {
		if part == r.Part {
			RunBubble(t, r, idx, o, nontrivial)
		}
		return
	}
	workers := vkit.Workers()
	var wg sync.WaitGroup
	next := make(chan int, workers)
	for w := 0; w < workers; w++ {
		wg.Add(1)
		go func() {
			defer wg.Done()
			for i := range next {
				r.LogCase(i)
				RunBubble(t, r, i, o, nontrivial)
			}
		}()
	}
	for i := 0; i < n; i++ {
		next <- i
	}
	close(next)
	wg.Wait()
}
