package dbsim

import (
	"fmt"

	"github.com/cilium/statedb"
)

// wseq is a query result (iter.Seq2) obtained from a write transaction and ranged later: after further writes of that
// transaction, after its Commit or Abort, and while later transactions are open. What it then yields must be the table as the
// owning transaction saw it when the query was made or, at the latest, as that transaction saw it at the time of ranging (as
// it left it, once finished) - never a mixture, and never anything written by another transaction.
type wseq struct {
	desc   string
	t      *simTable
	all    bool
	p      Probe
	seq    func() []Obs
	mq     *TableModel
	owner  string
	mfinal *TableModel // nil while the owner is open
}

func (w *wseq) matches(m *TableModel, obs []Obs) bool {
	if w.all {
		objs := m.sortedObjs()
		if len(objs) != len(obs) {
			return false
		}
		for i := range obs {
			if !same(obs[i], objs[i]) {
				return false
			}
		}
		return true
	}
	return m.check(w.p, obs) == ""
}

func (s *Sim) takeWSeq(what string, wtxn statedb.WriteTxn, t *simTable, working *TableModel) {
	if s.Failed {
		return
	}
	w := &wseq{t: t, owner: what, mq: working.Clone()}
	tbl := t.tbl
	probes := t.schema.genProbes(s.Rng, working, 1)
	if s.Rng.IntN(3) == 0 || len(probes) == 0 {
		w.all = true
		sq := tbl.All(wtxn)
		w.seq = func() []Obs { return observe(sq) }
		w.desc = t.name + ".All"
	} else {
		w.p = probes[s.Rng.IntN(len(probes))]
		q := w.p.query()
		switch w.p.Kind {
		case "list":
			sq := tbl.List(wtxn, q)
			w.seq = func() []Obs { return observe(sq) }
		case "prefix":
			sq := tbl.Prefix(wtxn, q)
			w.seq = func() []Obs { return observe(sq) }
		case "lowerbound":
			sq := tbl.LowerBound(wtxn, q)
			w.seq = func() []Obs { return observe(sq) }
		default:
			return
		}
		w.desc = t.name + "." + w.p.String()
	}
	s.Logf("%s retained sequence %s", what, w.desc)
	if len(s.wseqs) < 6 {
		s.wseqs = append(s.wseqs, w)
	} else {
		s.wseqs[s.Rng.IntN(len(s.wseqs))] = w
	}
}

// checkWSeqs ranges every retained sequence. open names the write transaction that is open now ("" = none), working its view.
func (s *Sim) checkWSeqs(when, open string, working map[*simTable]*TableModel) {
	for _, w := range s.wseqs {
		if s.Failed {
			return
		}
		obs := w.seq()
		s.wseqChecks++
		if w.matches(w.mq, obs) {
			continue
		}
		cur := w.mfinal
		if w.mfinal == nil && w.owner == open && working != nil {
			cur = working[w.t]
		}
		if cur != nil && w.matches(cur, obs) {
			continue
		}
		s.Violate("query", "retained-wtxn-seq", "sequence %s obtained from write transaction %s and ranged %s yields %s: neither the table as that transaction saw it at the query nor as it sees it now / left it", w.desc, w.owner, when, fmtObs(obs))
	}
}

// finishWSeqs records how the finished transaction left its tables.
func (s *Sim) finishWSeqs(what string, working map[*simTable]*TableModel) {
	for _, w := range s.wseqs {
		if w.owner == what && w.mfinal == nil {
			w.mfinal = working[w.t].Clone()
		}
	}
}

var _ = fmt.Sprint
