package dbsim

import (
	"bytes"
	"encoding/hex"
	"encoding/json"
	"fmt"
	"iter"
	"math/rand/v2"
	"net/netip"
	"slices"
	"sort"
	"strings"

	"github.com/cilium/statedb"

	"verifharness/vkit"
)

// Obs is one observed query result element.
type Obs struct {
	ID  string
	N   uint64
	Rev uint64
}

func observe(seq iter.Seq2[*Obj, statedb.Revision]) []Obs {
	var out []Obs
	for o, rev := range seq {
		out = append(out, Obs{string(o.ID), o.N, rev})
	}
	return out
}

func observeAny(seq iter.Seq2[any, statedb.Revision]) []Obs {
	var out []Obs
	for a, rev := range seq {
		o := a.(*Obj)
		out = append(out, Obs{string(o.ID), o.N, rev})
	}
	return out
}

func fmtObs(os []Obs) string {
	var b strings.Builder
	for i, o := range os {
		if i > 0 {
			b.WriteByte(' ')
		}
		fmt.Fprintf(&b, "%x:n%d@%d", o.ID, o.N, o.Rev)
	}
	return "[" + b.String() + "]"
}

func fmtEntries(es []Entry) string {
	var b strings.Builder
	for i, e := range es {
		if i > 0 {
			b.WriteByte(' ')
		}
		k := e.Key
		if len(k) > 0 && (k[0] == '0' || k[0] == '1') && strings.Trim(k, "01") == "" {
			if len(k) > 100 {
				k = "…" + k[96:]
			}
		} else {
			k = hex.EncodeToString([]byte(k))
		}
		fmt.Fprintf(&b, "%s=>%x:n%d@%d", k, e.O.O.ID, e.O.O.N, e.O.Rev)
	}
	return "[" + b.String() + "]"
}

func same(o Obs, m MObj) bool {
	return o.ID == string(m.O.ID) && o.N == m.O.N && o.Rev == m.Rev
}

// matchSeq is the result-sequence oracle: the observed sequence must be a subsequence of the expected
// entries (sorted by index key, then primary key) that contains every expected object at least once;
// i.e. set equality, no object more often than it has matching keys, and an assignment of matching keys
// that makes the sequence ascending. For indexes with one entry per object this is sequence equality.
func matchSeq(obs []Obs, exp []Entry) string {
	j := 0
	seen := map[string]bool{}
	for i, o := range obs {
		for j < len(exp) && !same(o, exp[j].O) {
			j++
		}
		if j == len(exp) {
			return fmt.Sprintf("element %d (%x:n%d@%d) is stale, duplicated or out of order", i, o.ID, o.N, o.Rev)
		}
		seen[o.ID] = true
		j++
	}
	for _, e := range exp {
		if !seen[string(e.O.O.ID)] {
			return fmt.Sprintf("object %x:n%d@%d is missing", e.O.O.ID, e.O.O.N, e.O.Rev)
		}
	}
	return ""
}

// Probe is one query of the battery.
type Probe struct {
	Index string // id, tags, u, pfx, l, rev
	Kind  string // get, list, prefix, lowerbound
	Key   string // raw bytes (part), bit string (LPM) or 8-byte revision
}

func (p Probe) String() string {
	k := p.Key
	if p.Index != "pfx" && p.Index != "l" {
		k = hex.EncodeToString([]byte(k))
	} else if len(k) > 96 && p.Index == "pfx" {
		k = "…" + k[96:]
	}
	return p.Index + "." + p.Kind + "(" + k + ")"
}

func bitsToBytes(bs string, n int) []byte {
	data := make([]byte, n)
	for i := 0; i < len(bs); i++ {
		if bs[i] == '1' {
			data[i/8] |= 1 << (7 - uint(i%8))
		}
	}
	return data
}

// query builds the statedb query of a probe.
func (p Probe) query() statedb.Query[*Obj] {
	switch p.Index {
	case "id":
		return IDIndex.Query([]byte(p.Key))
	case "tags":
		return TagsIndex.Query([]byte(p.Key))
	case "u":
		return UIndex.Query([]byte(p.Key))
	case "pfx":
		var a [16]byte
		copy(a[:], bitsToBytes(p.Key, 16))
		if len(p.Key) == 128 {
			return PfxIndex.Query(netip.AddrFrom16(a).Unmap())
		}
		if len(p.Key) >= 96 && netip.AddrFrom16(a).Is4In6() {
			var a4 [4]byte
			copy(a4[:], a[12:])
			return PfxIndex.QueryPrefix(netip.PrefixFrom(netip.AddrFrom4(a4), len(p.Key)-96))
		}
		return PfxIndex.QueryPrefix(netip.PrefixFrom(netip.AddrFrom16(a), len(p.Key)))
	case "l":
		return LIndex.Query(bitsToBytes(p.Key, 2), uint16(len(p.Key)))
	case "rev":
		var r uint64
		for i := 0; i < 8; i++ {
			r = r<<8 | uint64(p.Key[i])
		}
		return statedb.ByRevision[*Obj](r)
	}
	panic("bad index " + p.Index)
}

// expected computes the expected entries of a probe from the model.
func (m *TableModel) expected(p Probe) []Entry {
	es := m.entries(p.Index)
	lpm := p.Index == "pfx" || p.Index == "l"
	switch p.Kind {
	case "get", "list":
		key := p.Key
		if lpm {
			// longest stored prefix covering the key
			best := ""
			found := false
			for _, e := range es {
				if strings.HasPrefix(p.Key, e.Key) && (!found || len(e.Key) > len(best)) {
					best, found = e.Key, true
				}
			}
			if !found {
				return nil
			}
			key = best
		}
		return filter(es, func(e Entry) bool { return e.Key == key })
	case "prefix":
		return filter(es, func(e Entry) bool { return strings.HasPrefix(e.Key, p.Key) })
	case "lowerbound":
		return filter(es, func(e Entry) bool { return e.Key >= p.Key })
	}
	panic("bad kind")
}

// run executes the probe.
func (p Probe) run(txn statedb.ReadTxn, tbl statedb.Table[*Obj]) (obs []Obs, watch <-chan struct{}) {
	q := p.query()
	switch p.Kind {
	case "get":
		o, rev, w, ok := tbl.GetWatch(txn, q)
		if ok {
			obs = []Obs{{string(o.ID), o.N, rev}}
		}
		return obs, w
	case "list":
		seq, w := tbl.ListWatch(txn, q)
		return observe(seq), w
	case "prefix":
		seq, w := tbl.PrefixWatch(txn, q)
		return observe(seq), w
	case "lowerbound":
		seq, w := tbl.LowerBoundWatch(txn, q)
		first := observe(seq)
		if again := observe(seq); fmtObs(again) != fmtObs(first) {
			// the sequence is re-iterable: a second pass over the same sequence must yield the same objects
			return append(first, Obs{ID: "<second iteration of the same sequence differs>"}), w
		}
		return first, w
	}
	panic("bad kind")
}

// check compares a probe's result with the model; returns "" or a description.
func (m *TableModel) check(p Probe, obs []Obs) string {
	exp := m.expected(p)
	if p.Kind == "get" {
		if len(exp) == 0 {
			if len(obs) != 0 {
				return fmt.Sprintf("%s returned %s, want nothing", p, fmtObs(obs))
			}
			return ""
		}
		if len(obs) != 1 || !same(obs[0], exp[0].O) {
			return fmt.Sprintf("%s returned %s, want first of %s", p, fmtObs(obs), fmtEntries(exp))
		}
		return ""
	}
	if msg := matchSeq(obs, exp); msg != "" {
		return fmt.Sprintf("%s returned %s, want %s: %s", p, fmtObs(obs), fmtEntries(exp), msg)
	}
	return ""
}

// genProbes draws query probes for a table state: keys in use, their prefixes/extensions/neighbours and absent keys.
func (s Schema) genProbes(rng *rand.Rand, m *TableModel, n int) []Probe {
	var out []Probe
	indexes := []string{"id", "rev"}
	if s.Tags {
		indexes = append(indexes, "tags")
	}
	if s.U {
		indexes = append(indexes, "u")
	}
	if s.Pfx {
		indexes = append(indexes, "pfx")
	}
	if s.LPM {
		indexes = append(indexes, "l")
	}
	for _, idx := range indexes {
		es := m.entries(idx)
		for i := 0; i < n; i++ {
			var key string
			if len(es) > 0 && rng.IntN(10) < 7 {
				key = es[rng.IntN(len(es))].Key
			}
			lpm := idx == "pfx" || idx == "l"
			kind := []string{"get", "list", "prefix", "lowerbound"}[rng.IntN(4)]
			switch {
			case idx == "rev":
				var r uint64
				switch rng.IntN(4) {
				case 0:
					r = 0
				case 1:
					r = m.Rev + 1
				case 2:
					r = m.Rev
				default:
					r = uint64(rng.IntN(int(m.Rev) + 2))
				}
				var k [8]byte
				for j := 0; j < 8; j++ {
					k[j] = byte(r >> (56 - 8*j))
				}
				key = string(k[:])
				if kind == "prefix" {
					kind = "lowerbound"
				}
			case lpm:
				width := 16
				base := 0
				if idx == "pfx" {
					width = 128
					if rng.IntN(3) > 0 {
						base = 96 // mostly stay inside the IPv4-mapped range
					}
				}
				if key == "" {
					key = randomPfxBits(rng, idx)
				}
				switch rng.IntN(5) {
				case 0: // shorter
					if len(key) > base {
						key = key[:base+rng.IntN(len(key)-base+1)]
					}
				case 1: // longer
					for len(key) < width && rng.IntN(4) > 0 {
						key += string("01"[rng.IntN(2)])
					}
				case 2: // diverge at a random bit
					if len(key) > base {
						i := base + rng.IntN(len(key)-base)
						b := []byte(key)
						b[i] ^= 1
						key = string(b[:i+1+rng.IntN(len(b)-i)])
					}
				}
				if kind == "get" || kind == "list" {
					// domain of the LPM lookup: full-length keys or stored prefixes
					stored := false
					for _, e := range es {
						stored = stored || e.Key == key
					}
					if !stored {
						for len(key) < width {
							key += string("01"[rng.IntN(2)])
						}
					}
				}
			default:
				alph := s.IDAlphabet
				if idx != "id" || len(alph) == 0 {
					alph = tagAlphabet
				}
				switch rng.IntN(6) {
				case 0:
					if len(key) > 0 {
						key = key[:rng.IntN(len(key)+1)]
					}
				case 1:
					key += string(alph[rng.IntN(len(alph))])
				case 2:
					if len(key) > 0 {
						b := []byte(key)
						b[len(b)-1] = alph[rng.IntN(len(alph))]
						key = string(b)
					}
				case 3:
					key = ""
				}
			}
			out = append(out, Probe{idx, kind, key})
		}
	}
	return out
}

var tagAlphabet = []byte{0x00, 0x01, 0x02, 'a', 0xff}

var pfxPool = []string{
	"0.0.0.0/0", "10.0.0.0/8", "10.0.0.0/9", "10.128.0.0/9", "10.1.0.0/16", "10.1.1.0/24", "10.1.1.1/32", "10.1.1.2/31",
	"11.0.0.0/8", "10.1.128.0/17", "192.168.0.0/16", "192.168.1.0/24", "128.0.0.0/1", "10.0.0.0/7", "10.1.1.128/25", "255.255.255.255/32",
	// IPv6: shorter than the 96-bit IPv4-mapped range, covering it, and full length
	"::/0", "2001:db8::/32", "2001:db8:1::/48", "fe80::/10", "::ffff:0:0/96", "::/64", "2001:db8::1/128", "ff00::/8",
}

func randomPfx(rng *rand.Rand) netip.Prefix {
	if rng.IntN(5) > 0 {
		return netip.MustParsePrefix(pfxPool[rng.IntN(len(pfxPool))])
	}
	var a [4]byte
	a[0] = []byte{10, 11, 192, 128}[rng.IntN(4)]
	a[1] = byte(rng.IntN(3))
	a[2] = byte(rng.IntN(2)) * 128
	a[3] = byte(rng.IntN(256))
	return netip.PrefixFrom(netip.AddrFrom4(a), rng.IntN(33)).Masked()
}

func randomLKey(rng *rand.Rand) LKey {
	var l LKey
	l.Data[0] = []byte{0x00, 0x80, 0xc0, 0xff, 0x0a}[rng.IntN(5)]
	l.Data[1] = []byte{0x00, 0x80, 0x01, 0xff}[rng.IntN(4)]
	l.Len = uint16([]int{0, 1, 2, 7, 8, 9, 15, 16, rng.IntN(17)}[rng.IntN(9)])
	// mask
	full := bitsOf(l.Data[:], int(l.Len))
	copy(l.Data[:], bitsToBytes(full, 2))
	return l
}

func randomPfxBits(rng *rand.Rand, idx string) string {
	if idx == "pfx" {
		return pfxBits(randomPfx(rng))
	}
	return lkeyBits(randomLKey(rng))
}

// Battery runs the fixed queries (All, NumObjects, Revision) and the probes against txn and compares with the model.
// It returns a description of the first mismatch ("" if none), the class of the mismatch and a transcript hash.
func Battery(txn statedb.ReadTxn, tbl statedb.Table[*Obj], m *TableModel, probes []Probe, anyTable bool) (msg, class string, transcript uint64) {
	h := vkit.NewHash()
	fail := func(c, f string, a ...any) {
		if msg == "" {
			msg, class = fmt.Sprintf(f, a...), c
		}
	}
	if n := tbl.NumObjects(txn); n != len(m.Objs) {
		fail("numobjects", "NumObjects=%d want %d", n, len(m.Objs))
	} else {
		h.Int(int64(n))
	}
	rev := tbl.Revision(txn)
	h.Int(int64(rev))
	if rev != m.Rev {
		fail("revision", "Revision=%d want %d", rev, m.Rev)
	}
	// initialization state is part of what a transaction shows
	pend := tbl.PendingInitializers(txn)
	inited, _ := tbl.Initialized(txn)
	if !slices.Equal(pend, m.Pending) && !(len(pend) == 0 && len(m.Pending) == 0) {
		fail("initializers", "PendingInitializers=%v want %v", pend, m.Pending)
	}
	if inited != (len(m.Pending) == 0) {
		fail("initializers", "Initialized=%v with pending initializers %v", inited, m.Pending)
	}
	for _, n := range pend {
		h.Str(n)
	}
	h.Str(fmt.Sprint(inited))
	all := observe(tbl.All(txn))
	objs := m.sortedObjs()
	ok := len(all) == len(objs)
	for i := 0; ok && i < len(all); i++ {
		ok = same(all[i], objs[i])
	}
	if !ok {
		var es []Entry
		for _, o := range objs {
			es = append(es, Entry{string(o.O.ID), o})
		}
		fail("all", "All returned %s want %s", fmtObs(all), fmtEntries(es))
	}
	for _, o := range all {
		h.Str(o.ID).Int(int64(o.N)).Int(int64(o.Rev))
	}
	// the untyped view of the table is a read like any other
	if anyTable && msg == "" {
		at := statedb.AnyTable{Meta: tbl}
		aall := observeAny(at.All(txn))
		wall, wch := at.AllWatch(txn)
		aw := observeAny(wall)
		eq := func(x []Obs) bool {
			if len(x) != len(all) {
				return false
			}
			for i := range x {
				if x[i] != all[i] {
					return false
				}
			}
			return true
		}
		if n := at.NumObjects(txn); n != len(m.Objs) {
			fail("anytable/numobjects", "AnyTable.NumObjects=%d want %d", n, len(m.Objs))
		} else if !eq(aall) || !eq(aw) || wch == nil {
			fail("anytable/all", "AnyTable.All returned %s, AllWatch %s (channel nil: %v), Table.All %s", fmtObs(aall), fmtObs(aw), wch == nil, fmtObs(all))
		}
		// the iterator helpers over a query result
		var viaMap []Obs
		for id := range statedb.Map(statedb.Filter(tbl.All(txn), func(o *Obj) bool { return o.N%2 == 0 }), func(o *Obj) string { return string(o.ID) }) {
			viaMap = append(viaMap, Obs{ID: id})
		}
		var want []Obs
		for _, o := range all {
			if o.N%2 == 0 {
				want = append(want, Obs{ID: o.ID})
			}
		}
		collected := statedb.Collect(tbl.All(txn))
		if !slices.Equal(viaMap, want) || len(collected) != len(all) {
			fail("anytable/helpers", "Map(Filter(All)) yields %s want %s; Collect(All) has %d elements, All %d", fmtObs(viaMap), fmtObs(want), len(collected), len(all))
		}
		for i := 0; msg == "" && i < len(collected); i++ {
			if string(collected[i].ID) != all[i].ID || collected[i].N != all[i].N {
				fail("anytable/helpers", "Collect(All)[%d] = %v, All yields %s", i, collected[i], fmtObs(all))
			}
		}
	}
	// the JSON dump of the transaction is a read like any other
	if msg == "" {
		var buf bytes.Buffer
		var dump map[string][]struct {
			ID []byte
			N  uint64
		}
		if err := txn.WriteJSON(&buf, tbl.Name()); err != nil {
			fail("writejson", "WriteJSON: %v", err)
		} else if err := json.Unmarshal(buf.Bytes(), &dump); err != nil {
			fail("writejson", "WriteJSON output does not parse: %v", err)
		} else {
			rows := dump[tbl.Name()]
			ok := len(rows) == len(objs) && len(dump) == 1
			for i := 0; ok && i < len(rows); i++ {
				ok = string(rows[i].ID) == string(objs[i].O.ID) && rows[i].N == objs[i].O.N
			}
			if !ok {
				fail("writejson", "WriteJSON(%s) lists %d objects %v, the table has %d (All: %s)", tbl.Name(), len(rows), rows, len(objs), fmtObs(all))
			}
		}
	}
	for _, p := range probes {
		obs, _ := p.run(txn, tbl)
		h.Str(p.Index).Str(p.Kind).Str(p.Key)
		for _, o := range obs {
			h.Str(o.ID).Int(int64(o.N)).Int(int64(o.Rev))
		}
		if msg == "" {
			if d := m.check(p, obs); d != "" {
				fail("probe/"+p.Index+"/"+p.Kind, "%s", d)
			}
		}
		if anyTable && msg == "" && (p.Index == "id" || p.Index == "tags" || p.Index == "u") {
			at := statedb.AnyTable{Meta: tbl}
			hk := hex.EncodeToString([]byte(p.Key))
			var aobs []Obs
			var err error
			switch p.Kind {
			case "get":
				var a any
				var r statedb.Revision
				var found bool
				a, r, found, err = at.Get(txn, p.Index, hk)
				if found {
					o := a.(*Obj)
					aobs = []Obs{{string(o.ID), o.N, r}}
				}
			case "list":
				var seq iter.Seq2[any, statedb.Revision]
				if seq, err = at.List(txn, p.Index, hk); err == nil {
					aobs = observeAny(seq)
				}
			case "prefix":
				var seq iter.Seq2[any, statedb.Revision]
				if seq, err = at.Prefix(txn, p.Index, hk); err == nil {
					aobs = observeAny(seq)
				}
			case "lowerbound":
				var seq iter.Seq2[any, statedb.Revision]
				if seq, err = at.LowerBound(txn, p.Index, hk); err == nil {
					aobs = observeAny(seq)
				}
			}
			if err != nil {
				fail("anytable/error", "AnyTable %s: %v", p, err)
			} else if d := m.check(p, aobs); d != "" {
				fail("anytable/"+p.Index+"/"+p.Kind, "AnyTable: %s", d)
			}
		}
	}
	return msg, class, h.Sum()
}

// byRevisionOK verifies that a LowerBound(ByRevision(0)) listing is strictly ascending and is the live set.
func byRevisionOK(txn statedb.ReadTxn, tbl statedb.Table[*Obj], m *TableModel) string {
	obs := observe(tbl.LowerBound(txn, statedb.ByRevision[*Obj](0)))
	if len(obs) != len(m.Objs) {
		return fmt.Sprintf("ByRevision(0) lists %d objects, table has %d", len(obs), len(m.Objs))
	}
	for i := range obs {
		if i > 0 && obs[i-1].Rev >= obs[i].Rev {
			return fmt.Sprintf("ByRevision(0) not strictly ascending: %s", fmtObs(obs))
		}
		mo, ok := m.Objs[obs[i].ID]
		if !ok || !same(obs[i], mo) {
			return fmt.Sprintf("ByRevision(0) lists %x:n%d@%d which is not the live version", obs[i].ID, obs[i].N, obs[i].Rev)
		}
	}
	return ""
}

func sortedKeys[V any](m map[string]V) []string {
	out := make([]string, 0, len(m))
	for k := range m {
		out = append(out, k)
	}
	sort.Strings(out)
	return out
}

var _ = bytes.Compare
