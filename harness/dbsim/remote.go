package dbsim

import (
	"context"
	"errors"
	"fmt"
	"net/http"
	"net/http/httptest"
	"net/url"
	"slices"
	"sort"
	"time"

	"github.com/cilium/statedb"
	"verifharness/vkit"
)

// Remote access: the database's HTTP handler served on a loopback listener and queried through statedb.RemoteTable. The
// remote Get is a List of the index, the remote LowerBound a LowerBound; the objects and the revisions reported with them
// must be what the same query returns locally (the model's expectation for the committed state). Only used outside
// synctest bubbles (network I/O does not block durably).

type remote struct {
	srv *httptest.Server
	url *url.URL
	tr  *http.Transport // own transport: closing another history's test server closes the idle connections of the default one
}

func (s *Sim) remoteStart() {
	if !s.O.Remote || s.rem != nil {
		return
	}
	srv := httptest.NewServer(s.DB.HTTPHandler())
	u, _ := url.Parse(srv.URL)
	s.rem = &remote{srv, u, &http.Transport{}}
}

func (s *Sim) remoteStop() {
	if s.rem != nil {
		s.rem.tr.CloseIdleConnections()
		s.rem.srv.Close()
		s.rem = nil
	}
}

func (s *Sim) remoteBattery(what string, t *simTable, m *TableModel) {
	if s.rem == nil || s.Failed {
		return
	}
	rt := statedb.NewRemoteTable[*Obj](s.rem.url, t.name)
	rt.SetTransport(s.rem.tr)
	probes := t.schema.genProbes(s.Rng, m, 1)
	// the by-revision index from a random live revision and from 0
	revs := []uint64{0}
	for _, o := range m.Objs {
		revs = append(revs, o.Rev, o.Rev+1)
		break
	}
	for _, r := range revs {
		var k [8]byte
		for i := 0; i < 8; i++ {
			k[i] = byte(r >> (56 - 8*i))
		}
		probes = append(probes, Probe{Index: "rev", Kind: "lowerbound", Key: string(k[:])})
	}
	ctx, cancel := context.WithTimeout(context.Background(), vkit.Patient(60*time.Second))
	defer cancel()
	for _, p := range probes {
		if p.Index == "pfx" || p.Index == "l" || p.Kind == "prefix" {
			continue
		}
		var obs []Obs
		var errs <-chan error
		q := p.query()
		lp := p
		if p.Kind == "lowerbound" {
			var seq func(func(*Obj, statedb.Revision) bool)
			seq, errs = rt.LowerBound(ctx, q)
			obs = observe(seq)
		} else {
			var seq func(func(*Obj, statedb.Revision) bool)
			seq, errs = rt.Get(ctx, q)
			obs = observe(seq)
			lp.Kind = "list"
		}
		if err := <-errs; err != nil {
			if errors.Is(err, context.DeadlineExceeded) {
				// a wall-clock deadline on a loaded machine decides nothing (responsiveness is C10's subject, judged there)
				s.R.Inconclusive(fmt.Sprintf("%s table %s: remote %s did not answer within the deadline: %v", what, t.name, p, err))
				return
			}
			s.Violate("query", "remote-error", "%s table %s: remote %s: %v", what, t.name, p, err)
			return
		}
		s.remoteChecks++
		if d := m.check(lp, obs); d != "" {
			class, key := "query", "remote/"+p.Index+"/"+p.Kind
			if p.Index == "rev" || revisionsDiffer(m, obs) {
				class, key = "rev", "remote-revision"
			}
			s.Violate(class, key, "%s table %s: through RemoteTable: %s", what, t.name, d)
			return
		}
		if p.Index == "rev" {
			if !sort.SliceIsSorted(obs, func(i, j int) bool { return obs[i].Rev < obs[j].Rev }) {
				s.Violate("rev", "remote-revision", "%s table %s: remote by-revision query not in ascending revision order: %s", what, t.name, fmtObs(obs))
				return
			}
		}
	}
	// table metadata is read-only: listing the indexes must not disturb anything (the handler does it on every query)
	names := t.tbl.Indexes()
	if !slices.IsSorted(names) {
		s.Violate("query", "indexes", "%s table %s: Indexes()=%v is not sorted", what, t.name, names)
	}
}

// revisionsDiffer: the right objects but with other revisions than the model's.
func revisionsDiffer(m *TableModel, obs []Obs) bool {
	for _, o := range obs {
		if mo, ok := m.Objs[o.ID]; ok && mo.O.N == o.N && mo.Rev != o.Rev {
			return true
		}
	}
	return false
}

var _ = fmt.Sprint
