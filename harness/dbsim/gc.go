package dbsim

import (
	"fmt"
	"runtime"
	"sync"
	"time"

	"github.com/cilium/statedb"

	"verifharness/hookctl"
)

// metricsRec records the graveyard and object counts reported by the DB.
type metricsRec struct {
	mu        sync.Mutex
	graveyard map[string]int
	objects   map[string]int
	lowWM     map[string]uint64
	gcReports int
}

func newMetricsRec() *metricsRec {
	return &metricsRec{graveyard: map[string]int{}, objects: map[string]int{}, lowWM: map[string]uint64{}}
}

func (m *metricsRec) WriteTxnTableAcquisition(string, string, time.Duration)   {}
func (m *metricsRec) WriteTxnTotalAcquisition(string, []string, time.Duration) {}
func (m *metricsRec) WriteTxnDuration(string, []string, time.Duration)         {}
func (m *metricsRec) GraveyardCleaningDuration(string, time.Duration)          {}
func (m *metricsRec) DeleteTrackerCount(string, int)                           {}
func (m *metricsRec) Revision(string, statedb.Revision)                        {}
func (m *metricsRec) GraveyardLowWatermark(t string, r statedb.Revision) {
	m.mu.Lock()
	m.lowWM[t] = r
	m.gcReports++
	m.mu.Unlock()
}
func (m *metricsRec) GraveyardObjectCount(t string, n int) {
	m.mu.Lock()
	m.graveyard[t] = n
	m.mu.Unlock()
}
func (m *metricsRec) ObjectCount(t string, n int) {
	m.mu.Lock()
	m.objects[t] = n
	m.mu.Unlock()
}

func (m *metricsRec) get(t string) (grave, objs int) {
	m.mu.Lock()
	defer m.mu.Unlock()
	return m.graveyard[t], m.objects[t]
}

// observeCounts makes the DB report the current counts of table t (an empty write transaction reports them on Commit).
func (s *Sim) observeCounts(t *simTable) (grave, objs int) {
	w := s.DB.WriteTxn(t.tbl)
	w.Commit()
	return s.metrics.get(t.name)
}

// Quiesce drains every live iterator against a fresh snapshot, lets the bound (3 collection intervals) elapse and
// asserts that no deleted object is retained any more and that retained objects never showed up in the counts.
func (s *Sim) Quiesce(what string) {
	if s.Failed || s.O.Sleep == nil {
		return
	}
	for _, t := range s.Tabs {
		live := s.liveIters(t)
		s.Rng.Shuffle(len(live), func(i, j int) { live[i], live[j] = live[j], live[i] }) // any of them may be the last to catch up
		for _, it := range live {
			for round := 0; round < 50 && !s.Failed; round++ {
				s.iterNextFull(what+" drain", it, s.DB.ReadTxn(), t.committed)
				if it.openWatch != nil {
					break
				}
			}
			if it.openWatch == nil && !s.Failed {
				s.Violate("gc", "drain-did-not-converge", "%s: iterator %s still reports pending changes after 50 fully consumed Next calls on an unchanged table", what, it.name)
			}
		}
	}
	for i := 0; i < 3; i++ {
		s.O.Sleep()
	}
	for _, t := range s.Tabs {
		if s.Failed {
			return
		}
		grave, objs := s.observeCounts(t)
		s.gcChecks++
		if grave != 0 {
			s.Violate("gc", "not-collected", "%s: table %s still retains %d deleted objects although every open iterator (%d) has drained the latest snapshot and 3 collection intervals have elapsed", what, t.name, grave, len(s.liveIters(t)))
			return
		}
		if len(t.iters) == 0 {
			t.settled = true
		}
		if objs != len(t.committed.Objs) {
			s.Violate("gc", "object-count", "%s: table %s reports %d objects, model has %d", what, t.name, objs, len(t.committed.Objs))
			return
		}
	}
	s.Logf("%s quiesced: graveyards empty", what)
}

// NoTrackerCheck: with no open iterator on a table, a committed delete retains nothing.
func (s *Sim) noTrackerCheck(what string, t *simTable) {
	if s.Failed || len(t.iters) > 0 || !t.settled {
		return
	}
	grave, _ := s.metrics.get(t.name)
	s.gcChecks++
	if grave != 0 {
		s.Violate("gc", "retained-without-iterator", "%s: table %s has no open change iterator but its graveyard holds %d objects after the commit", what, t.name, grave)
	}
}

// RegistrationMonitor returns a hook function (for hookctl.OnPoint, dispatched by handle name) that lets a table registration
// run into some of this history's commits: started while the committer is inside the root critical section (commit.rootLocked),
// it queues on the root lock and must not undo anything the commit publishes. RunTxn waits for it after Commit returned.
func (s *Sim) RegistrationMonitor(ctl *hookctl.Ctl) func(point, handle string) {
	return func(point, handle string) {
		if point != "commit.rootLocked" || handle != s.Handle {
			return
		}
		// (the collector commits under the same handle name from its own goroutine)
		s.regMu.Lock()
		if s.regPending != nil {
			s.regMu.Unlock()
			return
		}
		s.regTick++
		if s.regTick%5 != 0 {
			s.regMu.Unlock()
			return
		}
		name := fmt.Sprintf("reg%d", s.regTick)
		hN := fmt.Sprintf("%s-reg%d", s.Handle, s.regTick)
		done := make(chan struct{})
		s.regPending = done
		s.registrations++
		s.regMu.Unlock()
		db := s.DB
		go func() {
			defer close(done)
			statedb.NewTable(db.NewHandle(hN), name, IDIndex)
		}()
		// no sleeping here (virtual time must not be needed while a lock is held): spin until the registration has started
		for i := 0; i < 50000 && ctl.At(hN) != "register.beforeLock"; i++ {
			runtime.Gosched()
		}
		for i := 0; i < 200; i++ {
			runtime.Gosched()
		}
	}
}

// waitRegistration is called after Commit returned.
func (s *Sim) waitRegistration() {
	s.regMu.Lock()
	p := s.regPending
	s.regMu.Unlock()
	if p != nil {
		<-p
		s.regMu.Lock()
		if s.regPending == p {
			s.regPending = nil
		}
		s.regMu.Unlock()
	}
}
