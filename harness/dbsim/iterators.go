package dbsim

import (
	"fmt"
	"runtime"

	"github.com/cilium/statedb"
)

// delEntry is a committed deletion that was standing (key absent) when its transaction committed.
// The deletion's revision lies in (Lo, Hi].
type delEntry struct {
	ID     string
	Lo, Hi uint64
}

type simIter struct {
	name          string
	it            statedb.ChangeIterator[*Obj]
	table         *simTable
	creationRev   uint64
	committed     bool // the transaction that created it has committed
	createdIn     string
	replay        map[string]Obs
	gotDelete     map[string][]uint64 // id -> revisions of delivered deletions
	lastRev       uint64
	lastSnapRev   uint64          // revision of the newest snapshot passed to Next
	openWatch     <-chan struct{} // open channel returned by the last Next (nil if none)
	openAtRev     uint64          // committed table revision when openWatch was handed out
	settledBefore bool            // table.settled before this iterator was created
	ownHandle     bool            // created through the "<handle>-it" DB handle
	delivered     int
}

// txnDeletes tracks the deletions made inside the running transaction, per table.
type txnDel struct {
	lo, hi uint64
}

func (s *Sim) iterState(t *simTable) *iterTxnState {
	if s.itx == nil {
		s.itx = map[*simTable]*iterTxnState{}
	}
	st := s.itx[t]
	if st == nil {
		st = &iterTxnState{dels: map[string]txnDel{}}
		s.itx[t] = st
	}
	return st
}

type iterTxnState struct {
	dels map[string]txnDel
}

// noteDelete is called by writeOp for each successful deletion inside a transaction.
func (s *Sim) noteDelete(t *simTable, id string, lo, hi uint64) {
	s.iterState(t).dels[id] = txnDel{lo, hi}
}

// noteInsert: a re-insert removes the standing deletion of this transaction.
func (s *Sim) noteInsert(t *simTable, id string) {
	if s.itx != nil && s.itx[t] != nil {
		delete(s.itx[t].dels, id)
	}
}

// commitIterators is called after a successful Commit: the standing deletions become part of the table's log,
// iterators created in the transaction become live, and open watch channels must now be closed if the table changed.
func (s *Sim) commitIterators(what string) {
	for _, t := range s.Tabs {
		if st := s.itx[t]; st != nil {
			for id, d := range st.dels {
				if _, present := t.committed.Objs[id]; !present {
					t.delLog = append(t.delLog, delEntry{id, d.lo, d.hi})
				}
			}
		}
		for _, it := range t.iters {
			if !it.committed && it.createdIn == what {
				it.committed = true
			}
			if it.openWatch != nil && t.committed.Rev != it.openAtRev {
				s.changeChecks++
				if !isClosed(it.openWatch) {
					s.Violate("changes", "watch-not-closed", "%s: iterator %s holds an open watch channel from Next although a commit changed table %s (revision %d -> %d)",
						what, it.name, t.name, it.openAtRev, t.committed.Rev)
				}
				it.openWatch = nil
			}
		}
	}
	s.itx = nil
}

// abortIterators is called after Abort: iterators created in the aborted transaction are discarded.
func (s *Sim) abortIterators(what string, wtxn statedb.WriteTxn) {
	for _, t := range s.Tabs {
		keep := t.iters[:0]
		for _, it := range t.iters {
			if !it.committed && it.createdIn == what {
				// The registration was aborted with the transaction: the iterator is simply dropped by its owner (kept
				// reachable here so that no cleanup runs). Nothing may be retained on its behalf afterwards.
				s.Logf("%s drop iterator %s created in the aborted transaction", what, it.name)
				s.zombies = append(s.zombies, it.it)
				t.settled = it.settledBefore
				continue
			}
			if it.openWatch != nil && isClosed(it.openWatch) {
				s.Violate("changes", "watch-closed-by-abort", "%s: the open watch channel of iterator %s closed although the transaction aborted", what, it.name)
			}
			keep = append(keep, it)
		}
		t.iters = keep
	}
	s.itx = nil
}

func isClosed(ch <-chan struct{}) bool {
	select {
	case <-ch:
		return true
	default:
		return false
	}
}

// iterOp is an iterator operation inside a write transaction: create an iterator, or call Next with the write transaction.
func (s *Sim) iterOp(what string, wtxn statedb.WriteTxn, t *simTable, locked bool) {
	if s.Rng.IntN(2) == 0 {
		working := t.committed
		it, err := t.tbl.Changes(wtxn)
		s.Logf("%s %s.Changes() locked=%v", what, t.name, locked)
		if !locked {
			if errName(err) != "ErrTableNotLockedForWriting" {
				s.Violate("changes", "changes-unlocked", "%s: Changes on a table not held returned %v", what, err)
			}
			return
		}
		if err != nil {
			s.Violate("changes", "changes-error", "%s: Changes returned %v", what, err)
			return
		}
		_ = working
		s.iterSeq++
		si := &simIter{name: fmt.Sprintf("%s#%d", t.name, s.iterSeq), it: it, table: t, creationRev: t.tbl.Revision(wtxn), createdIn: what,
			replay: map[string]Obs{}, gotDelete: map[string][]uint64{}}
		si.settledBefore = t.settled
		t.iters = append(t.iters, si)
		t.settled = false
		return
	}
	// Next with a write transaction: only committed changes may be delivered
	live := s.liveIters(t)
	if len(live) == 0 {
		return
	}
	it := live[s.Rng.IntN(len(live))]
	s.iterNext(what+" Next(wtxn)", it, wtxn, it.table.committed)
}

func (s *Sim) liveIters(t *simTable) []*simIter {
	var out []*simIter
	for _, it := range t.iters {
		if it.committed {
			out = append(out, it)
		}
	}
	return out
}

// iterNextFull is iterNext with full consumption.
func (s *Sim) iterNextFull(what string, it *simIter, txn statedb.ReadTxn, m *TableModel) {
	s.forceFull = true
	defer func() { s.forceFull = false }()
	s.iterNext(what, it, txn, m)
}

// iterNext calls Next with the given transaction whose committed view of the table is model m.
func (s *Sim) iterNext(what string, it *simIter, txn statedb.ReadTxn, m *TableModel) {
	if m.Rev < it.lastSnapRev || m.Rev < it.creationRev {
		return // keep snapshots monotone and not older than the iterator itself
	}
	it.lastSnapRev = m.Rev
	seq, watch := it.it.Next(txn)
	closed := isClosed(watch)
	limit := -1
	if !s.forceFull && s.Rng.IntN(3) == 0 {
		limit = s.Rng.IntN(4)
	}
	n := 0
	full := true
	if limit == 0 {
		// do not touch the sequence at all (an element handed to the loop body counts as delivered)
		full = false
		seq = func(func(statedb.Change[*Obj], statedb.Revision) bool) {}
	}
	for ch, rev := range seq {
		if limit > 0 && n == limit-1 {
			full = false // stop after this element; whether more were pending is unknown
		}
		n++
		it.delivered++
		s.changeChecks++
		if !closed {
			s.Violate("changes", "delivery-with-open-watch", "%s: iterator %s delivered %s although Next returned an open watch channel", what, it.name, ch.Object)
			return
		}
		if rev != ch.Revision {
			s.Violate("changes", "revision-mismatch", "%s: iterator %s: Change.Revision=%d but sequence revision=%d", what, it.name, ch.Revision, rev)
			return
		}
		if rev <= it.lastRev {
			s.Violate("changes", "not-increasing", "%s: iterator %s delivered revision %d after %d", what, it.name, rev, it.lastRev)
			return
		}
		it.lastRev = rev
		id := string(ch.Object.ID)
		if ch.Deleted {
			// must be a committed deletion (standing at its commit) visible in the snapshot and newer than the iterator
			ok := false
			for _, d := range it.table.delLog {
				if d.ID == id && d.Lo < rev && rev <= d.Hi && d.Hi <= m.Rev {
					ok = true
				}
			}
			if !ok {
				s.Violate("changes", "uncommitted-delete", "%s: iterator %s delivered deletion of %x@%d which is not a committed deletion visible in the snapshot (table revision %d)", what, it.name, id, rev, m.Rev)
				return
			}
			if rev <= it.creationRev {
				s.Violate("changes", "past-delete", "%s: iterator %s (created at revision %d) delivered the older deletion %x@%d", what, it.name, it.creationRev, id, rev)
				return
			}
			delete(it.replay, id)
			it.gotDelete[id] = append(it.gotDelete[id], rev)
		} else {
			cur, ok := m.Objs[id]
			if !ok || cur.O.N != ch.Object.N || cur.Rev != rev {
				s.Violate("changes", "uncommitted-update", "%s: iterator %s delivered update %s@%d which is not the committed version in the snapshot (%s@%d, present=%v)", what, it.name, ch.Object, rev, cur.O, cur.Rev, ok)
				return
			}
			it.replay[id] = Obs{id, ch.Object.N, rev}
		}
		if !full {
			break
		}
	}
	s.Logf("%s iterator %s: watch closed=%v consumed %d full=%v", what, it.name, closed, n, full)
	if !closed {
		it.openWatch = watch
		it.openAtRev = it.table.committed.Rev
	} else {
		it.openWatch = nil
	}
	if !closed || full {
		// converged: replay == snapshot contents; deletions after creation of keys absent in the snapshot were delivered
		{
			s.changeChecks++
			if len(it.replay) != len(m.Objs) {
				s.Violate("changes", "replay-differs", "%s: iterator %s: replay has %d objects, snapshot has %d (closed=%v)", what, it.name, len(it.replay), len(m.Objs), closed)
				return
			}
			for id, o := range m.Objs {
				r, ok := it.replay[id]
				if !ok || !same(r, o) {
					s.Violate("changes", "replay-differs", "%s: iterator %s: replay of %x is %v (present=%v), snapshot has n%d@%d (closed=%v)", what, it.name, id, r, ok, o.O.N, o.Rev, closed)
					return
				}
			}
			// latest committed deletion of each absent key
			latest := map[string]delEntry{}
			for _, d := range it.table.delLog {
				if d.Hi <= m.Rev {
					latest[d.ID] = d
				}
			}
			for id, d := range latest {
				if _, present := m.Objs[id]; present || d.Lo < it.creationRev {
					continue
				}
				got := false
				for _, r := range it.gotDelete[id] {
					got = got || d.Lo < r && r <= d.Hi
				}
				if !got {
					s.Violate("changes", "deletion-not-delivered", "%s: iterator %s (created at revision %d) never delivered the deletion of %x at revision (%d,%d] although the snapshot (revision %d) lacks the key", what, it.name, it.creationRev, id, d.Lo, d.Hi, m.Rev)
					return
				}
			}
		}
	}
}

// IterStep is an iterator operation between transactions.
func (s *Sim) IterStep(i int) {
	what := fmt.Sprintf("i%d", i)
	t := s.Tabs[s.Rng.IntN(len(s.Tabs))]
	live := s.liveIters(t)
	switch x := s.Rng.IntN(100); {
	case x < 15 || len(live) == 0:
		s.createIter(what, t)
	case x < 75:
		it := live[s.Rng.IntN(len(live))]
		// fresh snapshot, or an older retained one (monotone)
		if len(s.snaps) > 0 && s.Rng.IntN(4) == 0 {
			sn := s.snaps[s.Rng.IntN(len(s.snaps))]
			for ti, tt := range s.Tabs {
				if tt == t && ti < len(sn.models) {
					s.iterNext(what+" Next(retained "+sn.name+")", it, sn.txn, sn.models[ti])
					return
				}
			}
		}
		s.iterNext(what+" Next(fresh)", it, s.DB.ReadTxn(), t.committed)
	case x < 78 && len(t.committed.Objs) > 0:
		// Directed sequence at one virtual instant (the rate-limited collector cannot run in between): delete X while an
		// iterator is open, close every iterator of the table, re-insert X, open a new iterator, delete X again.
		id := []byte(sortedKeys(t.committed.Objs)[s.Rng.IntN(len(t.committed.Objs))])
		s.Logf("%s macro: delete %x, close all iterators, re-insert, new iterator, delete again", what, id)
		one := func(kind int) {
			if s.Failed {
				return
			}
			s.forceSet, s.forced = []*simTable{t}, &forcedOp{kind, id}
			s.RunTxn(7000 + i*4 + kind%4)
			s.forceSet, s.forced = nil, nil
		}
		one(45)
		for _, it := range t.iters {
			if it.committed {
				it.it.Close()
			}
		}
		keep := t.iters[:0]
		for _, it := range t.iters {
			if !it.committed {
				keep = append(keep, it)
			}
		}
		t.iters = keep
		one(0)
		if !s.Failed {
			wtxn := s.DB.WriteTxn(t.tbl)
			s.open = wtxn
			it, err := t.tbl.Changes(wtxn)
			if err != nil {
				wtxn.Abort()
				s.open = nil
				s.Violate("changes", "changes-error", "%s: Changes returned %v", what, err)
				return
			}
			s.iterSeq++
			si := &simIter{name: fmt.Sprintf("%s#%d", t.name, s.iterSeq), it: it, table: t, creationRev: t.committed.Rev, createdIn: what,
				replay: map[string]Obs{}, gotDelete: map[string][]uint64{}, committed: true, settledBefore: t.settled}
			wtxn.Commit()
			s.open = nil
			t.iters = append(t.iters, si)
			t.settled = false
		}
		one(45)
	case x < 80 && len(s.Tabs) > 1:
		// Next with a write transaction on ANOTHER table that was opened before a later commit to the iterated table:
		// only what was committed when that write transaction was created may be delivered.
		it := live[s.Rng.IntN(len(live))]
		// The outer transaction must hold a table that sorts BEFORE t in the lock order: this goroutine acquires a second
		// table lock (for the nested commit to t) while holding the first, which is only deadlock-free against all-at-once
		// lockers (the collector takes {other, t} in order) if it also respects the order.
		var other *simTable
		for _, o := range s.Tabs {
			if o == t {
				break
			}
			other = o
		}
		if other == nil {
			return
		}
		w := s.DB.WriteTxn(other.tbl)
		outer := s.open
		s.open = w
		atCreation := t.committed
		s.Logf("%s open WriteTxn(%s), then commit to %s, then Next(that WriteTxn)", what, other.name, t.name)
		s.forceSet = []*simTable{t}
		s.RunTxn(5000 + i)
		s.forceSet = nil
		if !s.Failed {
			s.iterNext(what+" Next(older wtxn on "+other.name+")", it, w, atCreation)
		}
		w.Abort()
		s.open = outer
	case x < 85:
		it := live[s.Rng.IntN(len(live))]
		s.Logf("%s close %s", what, it.name)
		if s.O.Ctl != nil && it.ownHandle && s.Rng.IntN(3) == 0 {
			// Close() held up before it gets the table lock while another iterator is registered on the same table and committed:
			// whatever Close() computed before it had the lock must not undo that registration
			pa := s.O.Ctl.PauseAt(s.Handle+"-it", "wtxn.beforeLock")
			closed := make(chan struct{})
			go func() { defer close(closed); it.it.Close() }()
			for k := 0; k < 20000 && !pa.Reached(); k++ {
				runtime.Gosched()
			}
			if pa.Reached() {
				s.closeQueued++
				s.createIterH(what+" (while a Close is queued)", t, s.Handle+"-it2")
			}
			pa.Resume()
			<-closed
		} else if s.O.Ctl != nil && s.O.ForceGC && it.ownHandle && s.Rng.IntN(2) == 0 {
			// Fault enumeration of Close(): its commit (removal of the tracker) is paused before the root is published while the
			// collector gets time for a round; whatever the collector saw, the closed iterator's deletions must be collected later.
			pa := s.O.Ctl.PauseAt(s.Handle+"-it", "commit.beforeRootLock")
			closed := make(chan struct{})
			go func() { defer close(closed); it.it.Close() }()
			for k := 0; k < 20000 && !pa.Reached(); k++ {
				runtime.Gosched()
			}
			if pa.Reached() {
				s.closePauses++
				for k := 0; k < 3000; k++ {
					runtime.Gosched()
				}
			}
			pa.Resume()
			<-closed
		} else {
			it.it.Close()
		}
		keep := t.iters[:0]
		for _, o := range t.iters {
			if o != it {
				keep = append(keep, o)
			}
		}
		t.iters = keep
		if rt := s.DB.ReadTxn(); t.tbl.Revision(rt) != t.committed.Rev {
			s.Violate("rev", "tracker-commit-changed-revision", "%s: closing a change iterator changed the revision of %s", what, t.name)
		}
	default:
		s.Logf("%s sleep", what)
		if s.O.Sleep != nil {
			s.O.Sleep()
		}
		rt := s.DB.ReadTxn()
		if t.tbl.Revision(rt) != t.committed.Rev {
			s.Violate("rev", "gc-changed-revision", "%s: table %s revision is %d after a collection window, model %d", what, t.name, t.tbl.Revision(rt), t.committed.Rev)
		}
		s.battery(what+" after-sleep", rt, t, t.committed, "query")
		s.verifySnapshots(what + " (sleep/GC)")
	}
}

// CloseIterators closes all iterators (end of history).
func (s *Sim) CloseIterators() {
	for _, z := range s.zombies {
		z.Close()
	}
	s.zombies = nil
	for _, t := range s.Tabs {
		for _, it := range t.iters {
			it.it.Close()
		}
		t.iters = nil
	}
}

// createIter creates a change iterator on t in a write transaction of its own (sometimes one that aborts).
func (s *Sim) createIter(what string, t *simTable) { s.createIterH(what, t, s.Handle+"-it") }

func (s *Sim) createIterH(what string, t *simTable, handle string) {
	if len(t.iters) >= 5 {
		return
	}
	if len(t.iters) > 0 && s.Rng.IntN(6) == 0 {
		// a collection cycle of the Go runtime between two registrations on one table: whatever identifies a tracker must not be
		// an address that the runtime may hand out again
		runtime.GC()
		s.gcCycles++
	}
	// (own DB handle: the tracker's later Close() commits under this name, so it can be paused without catching the collector)
	wtxn := s.DB.NewHandle(handle).WriteTxn(t.tbl)
	s.open = wtxn
	it, err := t.tbl.Changes(wtxn)
	if err != nil {
		wtxn.Abort()
		s.Violate("changes", "changes-error", "%s: Changes returned %v", what, err)
		return
	}
	s.iterSeq++
	si := &simIter{name: fmt.Sprintf("%s#%d", t.name, s.iterSeq), it: it, table: t, creationRev: t.committed.Rev, createdIn: what,
		replay: map[string]Obs{}, gotDelete: map[string][]uint64{}, ownHandle: handle == s.Handle+"-it"}
	if s.Rng.IntN(6) == 0 {
		s.Logf("%s %s.Changes() in a transaction that aborts", what, t.name)
		wtxn.Abort()
		s.zombies = append(s.zombies, it) // dropped, not closed
	} else {
		s.Logf("%s %s.Changes() -> %s", what, t.name, si.name)
		wtxn.Commit()
		si.committed = true
		t.iters = append(t.iters, si)
		t.settled = false
	}
	s.open = nil
	if rt := s.DB.ReadTxn(); t.tbl.Revision(rt) != t.committed.Rev {
		s.Violate("rev", "tracker-commit-changed-revision", "%s: creating a change iterator changed the revision of %s to %d (model %d)", what, t.name, t.tbl.Revision(rt), t.committed.Rev)
	}
}
