// Package dbsim drives random histories against the statedb DB (tables, transactions, indexes, snapshots,
// change iterators) and monitors them with an executable reference model.
package dbsim

import (
	"bytes"
	"encoding/hex"
	"fmt"
	"iter"
	"net/netip"
	"sort"
	"strings"

	"github.com/cilium/statedb"
	"github.com/cilium/statedb/index"
	"github.com/cilium/statedb/lpm"
)

// LKey is a key of the unique LPM index (16-bit keys).
type LKey struct {
	Data [2]byte
	Len  uint16
}

// Obj is the object type of all simulated tables.
type Obj struct {
	ID   []byte         // primary key
	Tags [][]byte       // non-unique multi-key part index
	U    []byte         // unique secondary part index; nil = no key
	Pfx  []netip.Prefix // non-unique LPM (NetIPPrefixIndex)
	L    []LKey         // unique LPM index
	N    uint64         // unique payload
}

func (o *Obj) TableHeader() []string { return []string{"ID", "Tags", "U", "Pfx", "L", "N"} }
func (o *Obj) TableRow() []string {
	return []string{hex.EncodeToString(o.ID), fmt.Sprint(o.Tags), hex.EncodeToString(o.U), fmt.Sprint(o.Pfx), fmt.Sprint(o.L), fmt.Sprint(o.N)}
}

func (o *Obj) String() string {
	if o == nil {
		return "<nil>"
	}
	var b strings.Builder
	fmt.Fprintf(&b, "{id=%x n=%d", o.ID, o.N)
	if len(o.Tags) > 0 {
		b.WriteString(" tags=")
		for i, t := range o.Tags {
			if i > 0 {
				b.WriteByte(',')
			}
			fmt.Fprintf(&b, "%x", t)
			if len(t) == 0 {
				b.WriteString("''")
			}
		}
	}
	if o.U != nil {
		fmt.Fprintf(&b, " u=%x", o.U)
	}
	if len(o.Pfx) > 0 {
		fmt.Fprintf(&b, " pfx=%v", o.Pfx)
	}
	if len(o.L) > 0 {
		b.WriteString(" l=")
		for _, l := range o.L {
			fmt.Fprintf(&b, "%x/%d,", l.Data[:], l.Len)
		}
	}
	b.WriteByte('}')
	return b.String()
}

func fromHex(s string) (index.Key, error) {
	b, err := hex.DecodeString(s)
	if err != nil {
		return nil, err
	}
	if b == nil {
		b = []byte{}
	}
	return index.Key(b), nil
}

func nonNil(b []byte) []byte {
	if b == nil {
		return []byte{}
	}
	return b
}

var (
	IDIndex = statedb.Index[*Obj, []byte]{
		Name:       "id",
		FromObject: func(o *Obj) index.KeySet { return index.NewKeySet(index.Key(nonNil(o.ID))) },
		FromKey:    func(k []byte) index.Key { return index.Key(nonNil(k)) },
		FromString: fromHex,
		Unique:     true,
	}
	TagsIndex = statedb.Index[*Obj, []byte]{
		Name: "tags",
		FromObject: func(o *Obj) index.KeySet {
			keys := make([]index.Key, 0, len(o.Tags))
			for _, t := range o.Tags {
				keys = append(keys, index.Key(nonNil(t)))
			}
			return index.NewKeySet(keys...)
		},
		FromKey:    func(k []byte) index.Key { return index.Key(nonNil(k)) },
		FromString: fromHex,
		Unique:     false,
	}
	UIndex = statedb.Index[*Obj, []byte]{
		Name: "u",
		FromObject: func(o *Obj) index.KeySet {
			if o.U == nil {
				return index.NewKeySet()
			}
			return index.NewKeySet(index.Key(o.U))
		},
		FromKey:    func(k []byte) index.Key { return index.Key(nonNil(k)) },
		FromString: fromHex,
		Unique:     true,
	}
	PfxIndex = statedb.NetIPPrefixIndex[*Obj]{
		Name: "pfx",
		FromObject: func(o *Obj) iter.Seq[netip.Prefix] {
			return func(yield func(netip.Prefix) bool) {
				for _, p := range o.Pfx {
					if !yield(p) {
						return
					}
				}
			}
		},
		Unique: false,
	}
	LIndex = statedb.LPMIndex[*Obj]{
		Name: "l",
		FromObject: func(o *Obj) iter.Seq2[[]byte, statedb.PrefixLen] {
			return func(yield func([]byte, statedb.PrefixLen) bool) {
				for _, l := range o.L {
					if !yield(l.Data[:], l.Len) {
						return
					}
				}
			}
		},
		Unique: true,
	}
)

// Schema says which secondary indexes a table has.
type Schema struct {
	Name              string
	Tags, U, Pfx, LPM bool
	IDAlphabet        []byte
	IDMaxLen          int
	UintIDs           bool // primary keys are big-endian uint64 of small integers
	Wide              bool // wide fan-out: ids are [a|b] + one of 64 letters (or nothing); transactions have grow/shrink phases
	LongIDs           bool // primary (and unique secondary) keys start with long stems (hundreds of bytes)
}

var Schemas = []Schema{
	{Name: "a", Tags: true, U: true, IDAlphabet: []byte{0x00, 0x01, 0x02, 'a', 'b', 0xff}, IDMaxLen: 3},
	{Name: "b", Pfx: true, LPM: true, UintIDs: true},
	{Name: "c", IDAlphabet: []byte{0x00, 'a', 'b'}, IDMaxLen: 2},
	{Name: "d", Tags: true, U: true, Pfx: true, LPM: true, IDAlphabet: []byte{0x00, 0x01, 'a', 0xff}, IDMaxLen: 2},
	{Name: "e", Wide: true, Tags: true, IDAlphabet: wideAlphabet, IDMaxLen: 2},
	// long keys; no non-unique part index (primaries longer than 256 bytes under a non-unique index are the known finding D9 of C18)
	{Name: "f", LongIDs: true, U: true, LPM: true, IDAlphabet: []byte{0x00, 'a', 0xff}, IDMaxLen: 2},
}

var longStems = [][]byte{bytes.Repeat([]byte{'x'}, 255), bytes.Repeat([]byte{'x'}, 256), bytes.Repeat([]byte{'x'}, 700), append(bytes.Repeat([]byte{'x'}, 256), bytes.Repeat([]byte{0x00}, 300)...)}

var wideAlphabet = func() []byte {
	var a []byte
	for i := 0; i < 64; i++ {
		a = append(a, byte(0x30+i))
	}
	return a
}()

// NewTable registers a table of the schema.
func (s Schema) NewTable(db *statedb.DB, name string) (statedb.RWTable[*Obj], error) {
	var sec []statedb.Indexer[*Obj]
	if s.Tags {
		sec = append(sec, TagsIndex)
	}
	if s.U {
		sec = append(sec, UIndex)
	}
	if s.Pfx {
		sec = append(sec, PfxIndex)
	}
	if s.LPM {
		sec = append(sec, LIndex)
	}
	return statedb.NewTable(db, name, IDIndex, sec...)
}

// ---- bit strings for LPM keys ----

func bitsOf(data []byte, n int) string {
	var b strings.Builder
	for i := 0; i < n; i++ {
		if data[i/8]>>(7-uint(i%8))&1 == 1 {
			b.WriteByte('1')
		} else {
			b.WriteByte('0')
		}
	}
	return b.String()
}

// pfxBits is the bit string of a netip prefix in the 128-bit key space of NetIPPrefixIndex.
func pfxBits(p netip.Prefix) string {
	k := lpm.NetIPPrefixToIndexKey(p.Masked())
	d, n := lpm.DecodeLPMKey(k)
	return bitsOf(d, int(n))
}

func addrBits(a netip.Addr) string {
	b := a.As16()
	return bitsOf(b[:], 128)
}

func lkeyBits(l LKey) string { return bitsOf(l.Data[:], int(l.Len)) }

// ---- model ----

type MObj struct {
	O   *Obj
	Rev uint64
}

// TableModel is the committed or in-transaction state of one table.
type TableModel struct {
	Objs    map[string]MObj
	Rev     uint64
	Pending []string // registered initializers not yet marked done (in registration order)
}

func (m *TableModel) Clone() *TableModel {
	c := &TableModel{Objs: make(map[string]MObj, len(m.Objs)), Rev: m.Rev, Pending: append([]string(nil), m.Pending...)}
	for k, v := range m.Objs {
		c.Objs[k] = v
	}
	return c
}

// Entry is one (index key, object) entry of an index; Key is in the index's ordering domain
// (raw bytes for part indexes, a bit string for LPM indexes).
type Entry struct {
	Key string
	O   MObj
}

func (m *TableModel) sortedObjs() []MObj {
	out := make([]MObj, 0, len(m.Objs))
	for _, o := range m.Objs {
		out = append(out, o)
	}
	sort.Slice(out, func(i, j int) bool { return bytes.Compare(out[i].O.ID, out[j].O.ID) < 0 })
	return out
}

// entries returns the entries of the given index sorted by (key, primary).
func (m *TableModel) entries(idx string) []Entry {
	var out []Entry
	for _, o := range m.Objs {
		switch idx {
		case "id":
			out = append(out, Entry{string(o.O.ID), o})
		case "tags":
			seen := map[string]bool{}
			for _, t := range o.O.Tags {
				if !seen[string(t)] {
					seen[string(t)] = true
					out = append(out, Entry{string(t), o})
				}
			}
		case "u":
			if o.O.U != nil {
				out = append(out, Entry{string(o.O.U), o})
			}
		case "pfx":
			seen := map[string]bool{}
			for _, p := range o.O.Pfx {
				b := pfxBits(p)
				if !seen[b] {
					seen[b] = true
					out = append(out, Entry{b, o})
				}
			}
		case "l":
			seen := map[string]bool{}
			for _, l := range o.O.L {
				b := lkeyBits(l)
				if !seen[b] {
					seen[b] = true
					out = append(out, Entry{b, o})
				}
			}
		case "rev":
			var k [8]byte
			for i := 0; i < 8; i++ {
				k[i] = byte(o.Rev >> (56 - 8*i))
			}
			out = append(out, Entry{string(k[:]), o})
		}
	}
	sort.Slice(out, func(i, j int) bool {
		if out[i].Key != out[j].Key {
			return out[i].Key < out[j].Key
		}
		return bytes.Compare(out[i].O.O.ID, out[j].O.O.ID) < 0
	})
	return out
}

func filter(es []Entry, keep func(Entry) bool) []Entry {
	var out []Entry
	for _, e := range es {
		if keep(e) {
			out = append(out, e)
		}
	}
	return out
}
