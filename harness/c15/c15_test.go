package c15

import (
	"sync"
	"testing"

	"verifharness/recsim"
	"verifharness/vkit"
)

const rule = "same runs as C14 with the status write-back oracle: at every quiescent point and at the end the table must hold exactly the latest user write of every key (no clobber, no loss, no deleted object re-created), " +
	"status Done/Error only on a version for which a successful/failed Update with that version's unique payload was issued, the status written by a second reconciler (status-only change through a StatusSet) must survive, " +
	"Update is only called for versions that are pending/refreshing or that have a failed attempt, Prune only after the table's initializer is committed done and with exactly All() of the snapshot it is given; " +
	"user writes are placed between rounds, inside Update/Delete/UpdateBatch and between the operation and the status commit; non-trivial = at least 3 operation attempts; distinct = hash of the event log"

func run(t *testing.T, r *vkit.Run, n int, report map[string]bool, pacing bool) {
	if part, idx, ok := vkit.ReplayCase(); ok {
		if part == r.Part {
			cfg := recsim.RandomConfig(r.Rand(idx, 99), pacing)
			cfg.Report = report
			recsim.Run(t, r, idx, cfg)
		}
		return
	}
	var wg sync.WaitGroup
	next := make(chan int)
	for w := 0; w < vkit.Workers(); w++ {
		wg.Add(1)
		go func() {
			defer wg.Done()
			for i := range next {
				cfg := recsim.RandomConfig(r.Rand(i, 99), pacing)
				cfg.Report = report
				r.LogCase(i)
				recsim.Run(t, r, i, cfg)
			}
		}()
	}
	for i := 0; i < n; i++ {
		next <- i
	}
	close(next)
	wg.Wait()
}

func TestVerif_WriteBack(t *testing.T) {
	r := vkit.Start(t, "C15", "write-back", "exploration", rule)
	r.Assume("bounded liveness in virtual time: 2 x RetryBackoffMax + (objects+5) x (limiter interval + 35 ms) + 1 s after failures and changes stop", "the reconciler is driven through hive's job group inside a synctest bubble; real-timer behaviour is out of scope")
	r.Require("operation_attempts", "failed_attempts", "user_writes", "prune_calls")
	run(t, r, vkit.N(6000, 120000), map[string]bool{"status": true}, false)
	r.Finish()
}
