package c15

import (
	"encoding/json"
	"fmt"

	"github.com/cilium/statedb/reconciler"
	"sync"
	"testing"

	"verifharness/recsim"
	"verifharness/vkit"
)

const rule = "same runs as C14 with the status write-back oracle: at every quiescent point and at the end the table must hold exactly the latest user write of every key (no clobber, no loss, no deleted object re-created), " +
	"status Done/Error only on a version for which a successful/failed Update with that version's unique payload was issued, the status written by a second reconciler (status-only change through a StatusSet) must survive, " +
	"Update is only called for versions that are pending/refreshing or that have a failed attempt, Prune only after the table's initializer is committed done and with exactly All() of the snapshot it is given; " +
	"user writes are placed between rounds, inside Update/Delete/UpdateBatch and between the operation and the status commit; non-trivial = at least 3 operation attempts; distinct = hash of the event log"

func run(t *testing.T, r *vkit.Run, n int, report map[string]bool, pacing bool) {
	if part, idx, ok := vkit.ReplayCase(); ok {
		if part == r.Part {
			cfg := recsim.RandomConfig(r.Rand(idx, 99), pacing)
			cfg.Report = report
			recsim.Run(t, r, idx, cfg)
		}
		return
	}
	var wg sync.WaitGroup
	next := make(chan int)
	for w := 0; w < vkit.Workers(); w++ {
		wg.Add(1)
		go func() {
			defer wg.Done()
			for i := range next {
				cfg := recsim.RandomConfig(r.Rand(i, 99), pacing)
				cfg.Report = report
				r.LogCase(i)
				recsim.Run(t, r, i, cfg)
			}
		}()
	}
	for i := 0; i < n; i++ {
		next <- i
	}
	close(next)
	wg.Wait()
}

func TestVerif_WriteBack(t *testing.T) {
	r := vkit.Start(t, "C15", "write-back", "exploration", rule)
	r.Assume("bounded liveness in virtual time: 2 x RetryBackoffMax + (objects+5) x (limiter interval + 35 ms) + 1 s after failures and changes stop", "the reconciler is driven through hive's job group inside a synctest bubble; real-timer behaviour is out of scope")
	r.Require("operation_attempts", "failed_attempts", "user_writes", "prune_calls")
	// ("the new version is reconciled again": a version that is never attempted shows as not Done / wrong last operation at the end)
	run(t, r, vkit.N(6000, 120000), map[string]bool{"status": true, "conv/not-done": true, "conv/last-op": true}, false)
	r.Finish()
}

// User transactions that keep the table locked across virtual time (a slow writer): whatever the reconciler and its refresher
// decided before they could get the lock must be re-checked once they hold it. One run at a time: the hook gate that parks the
// other lock requesters (so that the bubble's clock can advance) is process-wide.
func TestVerif_LockHeldWindow(t *testing.T) {
	r := vkit.Start(t, "C15", "lock-held-window", "exploration", rule+" (variant: refreshing always on, a third of the user transactions of the main goroutine hold the table lock for 1-400 ms of virtual time "+
		"while the reconciler, the refresher and the writes injected from operations wait for it)")
	r.Require("operation_attempts", "user_transactions_holding_the_lock")
	n := vkit.N(600, 20000)
	for i := 0; i < n; i++ {
		if part, idx, ok := vkit.ReplayCase(); ok && !(part == r.Part && idx == i) {
			continue
		}
		cfg := recsim.RandomConfig(r.Rand(i, 99), false)
		cfg.Refresh, cfg.HoldLock = true, true
		cfg.Report = map[string]bool{"status": true}
		r.LogCase(i)
		recsim.Run(t, r, i, cfg)
	}
	r.Finish()
}

// ---- StatusSet is a value: Set/Pending return new sets and leave every earlier one as it was ----

const ruleSet = "StatusSet values (the status field of objects shared by several reconcilers, copied by value with every object clone): pool of versions, each step applies Set (8 reconciler names, " +
	"Done/Error/Pending/Refreshing) or Pending() or a JSON round-trip to a random earlier version; after every step the result and three earlier versions are compared with a map model " +
	"(Get of present and absent names, All); non-trivial = at least 5 versions with at least 3 reconcilers; distinct = hash of the operation sequence"

type ssVersion struct {
	set   reconciler.StatusSet
	model map[string]reconciler.Status
}

func statusSetCase(r *vkit.Run, idx int) {
	rng := r.Rand(idx)
	names := []string{"a", "b", "c", "d", "e", "f", "g", "h"}
	h := vkit.NewHash()
	pool := []ssVersion{{set: reconciler.NewStatusSet(), model: map[string]reconciler.Status{}}}
	var log []string
	big := 0
	check := func(what string, v ssVersion) bool {
		all := v.set.All()
		if len(all) != len(v.model) {
			r.Violation("statusset/contents", idx, map[string]any{"message": fmt.Sprintf("%s: All() has %d entries, model %d", what, len(all), len(v.model)), "ops": log})
			return false
		}
		for _, n := range names {
			want, ok := v.model[n]
			got := v.set.Get(n)
			if ok {
				a, inAll := all[n]
				if !inAll || a.Kind != want.Kind || a.ID != want.ID || a.GetError() != want.GetError() || got.Kind != want.Kind || got.ID != want.ID || got.GetError() != want.GetError() {
					r.Violation("statusset/contents", idx, map[string]any{"message": fmt.Sprintf("%s: reconciler %q has status %v (All: %v, present=%v), model %v", what, n, got, a, inAll, want), "ops": log})
					return false
				}
			} else if got.Kind != reconciler.StatusKindPending {
				r.Violation("statusset/contents", idx, map[string]any{"message": fmt.Sprintf("%s: absent reconciler %q reads %v, want Pending", what, n, got), "ops": log})
				return false
			}
		}
		return true
	}
	steps := 10 + rng.IntN(40)
	for i := 0; i < steps; i++ {
		base := pool[rng.IntN(len(pool))]
		if rng.IntN(3) > 0 {
			base = pool[len(pool)-1-rng.IntN(min(3, len(pool)))]
		}
		nv := ssVersion{model: map[string]reconciler.Status{}}
		for k, v := range base.model {
			nv.model[k] = v
		}
		switch x := rng.IntN(20); {
		case x < 16:
			n := names[rng.IntN(len(names))]
			var st reconciler.Status
			switch rng.IntN(4) {
			case 0:
				st = reconciler.StatusDone()
			case 1:
				st = reconciler.StatusError(fmt.Errorf("e%d", i))
			case 2:
				st = reconciler.StatusPending()
			default:
				st = reconciler.StatusRefreshing()
			}
			nv.set = base.set.Set(n, st)
			nv.model[n] = st
			log = append(log, fmt.Sprintf("v%d = v?.Set(%s, %s)", len(pool), n, st.Kind))
			h.Str(n + st.Kind.String())
		case x < 18:
			nv.set = base.set.Pending()
			id := nv.set.Get("no-such-reconciler").ID
			for k, v := range nv.model {
				v.Kind = reconciler.StatusKindPending
				v.ID = id
				nv.model[k] = v
			}
			log = append(log, fmt.Sprintf("v%d = v?.Pending()", len(pool)))
			h.Str("pending")
		default:
			b, err := json.Marshal(base.set)
			var out reconciler.StatusSet
			if err == nil {
				err = json.Unmarshal(b, &out)
			}
			if err != nil {
				r.Violation("statusset/json", idx, map[string]any{"message": err.Error(), "ops": log})
				return
			}
			nv.set = out
			log = append(log, fmt.Sprintf("v%d = json(v?)", len(pool)))
			h.Str("json")
		}
		pool = append(pool, nv)
		if len(nv.model) >= 3 {
			big++
		}
		if !check(fmt.Sprintf("v%d (new)", len(pool)-1), nv) {
			return
		}
		for k := 0; k < 3; k++ {
			j := rng.IntN(len(pool))
			if !check(fmt.Sprintf("v%d re-read after step %d", j, i), pool[j]) {
				return
			}
			r.Count("earlier_versions_reread", 1)
		}
	}
	r.Case(h.Sum(), big >= 5)
}

func TestVerif_StatusSet(t *testing.T) {
	r := vkit.Start(t, "C15", "statusset", "exploration", ruleSet)
	r.Require("earlier_versions_reread")
	r.ParallelCases(vkit.N(4000, 200000), vkit.Workers(), func(i int) { statusSetCase(r, i) })
	r.Finish()
}
