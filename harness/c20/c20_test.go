package c20

import (
	"context"
	"errors"
	"fmt"
	"runtime"
	"slices"
	"sort"
	"strings"
	"sync"
	"sync/atomic"
	"testing"
	"testing/synctest"
	"time"

	"github.com/cilium/statedb"
	"github.com/cilium/statedb/index"

	"verifharness/vkit"
)

const rule = "random schedules under virtual time (testing/synctest): 0..12 channels (pre-closed, closing at distinct integer milliseconds, or never; in a quarter of the schedules also a nil member), set built with Add (with duplicates) / Clear / Merge, contexts of four kinds (cancel, cancel with cause, deadline, deadline with cause), " +
	"settle time 0 or k+0.5 ms, cancellation at a distinct millisecond, up to 3 consecutive Wait calls on the same set; return time, returned set, error and Has() of every channel are compared with the model, " +
	"and the slices returned by earlier calls are re-read after every later call; " +
	"non-trivial = the set was non-empty at the call; distinct = hash of the schedule"

type sched struct {
	N       int       `json:"channels"`
	CloseAt []int     `json:"close_at_ms"` // -1 never, 0 pre-closed
	InSet   []bool    `json:"in_set"`
	Calls   []callDef `json:"calls"`
}

type callDef struct {
	SettleUS int `json:"settle_us"`
	CancelMS int `json:"cancel_after_start_ms"` // relative to call start; -1 never
}

func runSchedule(r *vkit.Run, t *testing.T, idx int) {
	rng := r.Rand(idx)
	sc := sched{N: rng.IntN(13)}
	used := map[int]bool{}
	for i := 0; i < sc.N; i++ {
		switch rng.IntN(5) {
		case 0:
			sc.CloseAt = append(sc.CloseAt, 0)
		case 1:
			sc.CloseAt = append(sc.CloseAt, -1)
		default:
			for {
				c := 1 + rng.IntN(120)
				if !used[c] {
					used[c] = true
					sc.CloseAt = append(sc.CloseAt, c)
					break
				}
			}
		}
		sc.InSet = append(sc.InSet, rng.IntN(6) > 0)
	}
	ncalls := 1 + rng.IntN(3)
	for c := 0; c < ncalls; c++ {
		cd := callDef{}
		if rng.IntN(3) > 0 {
			cd.SettleUS = rng.IntN(30)*1000 + 500
		}
		cd.CancelMS = -1
		sc.Calls = append(sc.Calls, cd)
	}

	h := vkit.NewHash()
	h.Str(fmt.Sprintf("%+v", sc))
	var violated string
	var detail map[string]any
	var events []string
	nontrivial := false

	synctest.Test(t, func(t *testing.T) {
		t0 := time.Now()
		ms := func(d time.Duration) float64 { return float64(d) / float64(time.Millisecond) }
		chans := make([]chan struct{}, sc.N)
		ro := make([]<-chan struct{}, sc.N)
		var wg sync.WaitGroup
		for i := range chans {
			chans[i] = make(chan struct{})
			ro[i] = chans[i]
			switch {
			case sc.CloseAt[i] == 0:
				close(chans[i])
			case sc.CloseAt[i] > 0:
				wg.Add(1)
				go func(i int) {
					defer wg.Done()
					time.Sleep(time.Duration(sc.CloseAt[i]) * time.Millisecond)
					close(chans[i])
				}(i)
			}
		}
		// one of the pre-closed channels may be the closed channel the library itself hands out (Table.Initialized of an
		// initialized table, ChangeIterator.Next with changes pending): a member like any other
		if rng.IntN(5) == 0 {
			for i := range ro {
				if sc.CloseAt[i] == 0 {
					ro[i] = libraryClosedChannel()
					break
				}
			}
		}
		// Build the set with Add (duplicates), Clear and Merge.
		ws := statedb.NewWatchSet()
		member := make([]bool, sc.N)
		if rng.IntN(4) == 0 && sc.N > 0 {
			// junk then Clear
			ws.Add(ro[rng.IntN(sc.N)])
			ws.Clear()
		}
		other := statedb.NewWatchSet()
		for i := 0; i < sc.N; i++ {
			if !sc.InSet[i] {
				continue
			}
			member[i] = true
			switch rng.IntN(3) {
			case 0:
				ws.Add(ro[i])
			case 1:
				ws.Add(ro[i], ro[i])
			default:
				other.Add(ro[i])
			}
		}
		ws.Merge(other)
		// a nil channel is a legal member that never closes (e.g. an unset watch variable)
		hasNil := rng.IntN(4) == 0
		if hasNil {
			if rng.IntN(2) == 0 {
				ws.Add(nil)
			} else {
				var unset <-chan struct{}
				ws.Add(unset, unset)
			}
		}

		closedBy := func(at time.Duration) []int { // members closed at or before 'at' (relative to t0)
			var out []int
			for i := 0; i < sc.N; i++ {
				if member[i] && sc.CloseAt[i] >= 0 && time.Duration(sc.CloseAt[i])*time.Millisecond <= at {
					out = append(out, i)
				}
			}
			return out
		}
		fail := func(key string, f string, a ...any) {
			if violated == "" {
				violated = key
				detail = map[string]any{"message": fmt.Sprintf(f, a...), "schedule": sc, "events": events}
			}
		}

		var earlier, earlierCopy [][]<-chan struct{}
		returnedOnce := make([]bool, sc.N)
		time.Sleep(100 * time.Microsecond)
		for ci := range sc.Calls {
			cd := &sc.Calls[ci]
			start := time.Since(t0)
			// first close among members at or after start (pre-closed count as start)
			first := time.Duration(-1)
			anyMember := false
			for i := 0; i < sc.N; i++ {
				if !member[i] {
					continue
				}
				anyMember = true
				if sc.CloseAt[i] < 0 {
					continue
				}
				c := max(time.Duration(sc.CloseAt[i])*time.Millisecond, start)
				if first < 0 || c < first {
					first = c
				}
			}
			if hasNil {
				anyMember = true
			}
			if anyMember {
				nontrivial = true
			}
			// choose the cancel time for this call: distinct from all close times (we use x.25 ms offsets)
			if first < 0 || rng.IntN(3) == 0 {
				cd.CancelMS = 1 + rng.IntN(150)
			}
			settle := time.Duration(cd.SettleUS) * time.Microsecond
			// the context is a plain cancel context, one cancelled with a cause, or one with a deadline (with or without a cause):
			// Wait reports ctx.Err() in every case
			cancelAt := time.Duration(-1)
			if cd.CancelMS >= 0 {
				cancelAt = start + time.Duration(cd.CancelMS)*time.Millisecond + 250*time.Microsecond
			}
			var ctx context.Context
			var cancel func()
			cause := errors.New("shutting down")
			switch kind := rng.IntN(4); {
			case kind == 0 && cancelAt >= 0:
				ctx, cancel = context.WithTimeout(context.Background(), cancelAt-start)
			case kind == 1 && cancelAt >= 0:
				ctx, cancel = context.WithTimeoutCause(context.Background(), cancelAt-start, cause)
			case kind == 2:
				c, cf := context.WithCancelCause(context.Background())
				ctx, cancel = c, func() { cf(cause) }
			default:
				ctx, cancel = context.WithCancel(context.Background())
			}
			if cancelAt >= 0 {
				wg.Add(1)
				go func(d time.Duration) {
					defer wg.Done()
					time.Sleep(d)
					cancel()
				}(cancelAt - start)
			}
			// model
			var wantRet time.Duration
			wantErr := false
			var wantSet []int
			oneOf := false
			switch {
			case first < 0 || cancelAt >= 0 && cancelAt < first:
				wantRet, wantErr = cancelAt, true
			case settle == 0:
				wantRet = first
				wantSet = closedBy(first)
				oneOf = true
			default:
				wantRet = first + settle
				if cancelAt >= 0 && cancelAt < wantRet {
					wantRet, wantErr = cancelAt, true
				}
				wantSet = closedBy(wantRet)
			}
			got, err := ws.Wait(ctx, settle)
			ret := time.Since(t0)
			// results of earlier calls belong to the caller: a later Wait on the same set must not change them
			for pi, p := range earlier {
				if !slices.Equal(p, earlierCopy[pi]) {
					fail("earlier-result-changed", "the slice returned by call %d was changed by call %d on the same set", pi, ci)
				}
			}
			earlier = append(earlier, got)
			earlierCopy = append(earlierCopy, slices.Clone(got))
			events = append(events, fmt.Sprintf("call %d: start=%.2fms settle=%.2fms cancelAt=%.2fms -> returned %d channels err=%v at %.2fms (model: at %.2fms err=%v set=%v oneOf=%v)",
				ci, ms(start), ms(settle), ms(cancelAt), len(got), err, ms(ret), ms(wantRet), wantErr, wantSet, oneOf))
			cancel()
			r.Count("wait_calls", 1)
			if ret != wantRet {
				fail("return-time", "call %d returned at %.2fms, model says %.2fms", ci, ms(ret), ms(wantRet))
			}
			if (err != nil) != wantErr {
				fail("error", "call %d: err=%v, model wants error=%v", ci, err, wantErr)
			}
			if err != nil && err != ctx.Err() {
				fail("error-value", "call %d: err=%v is not the context's error %v", ci, err, ctx.Err())
			}
			// returned channels: added, closed, no duplicates
			gotIdx := []int{}
			seen := map[<-chan struct{}]bool{}
			if hasNil && !ws.Has(nil) {
				fail("membership", "after call %d: the nil member is gone from the set", ci)
			}
			for _, ch := range got {
				if ch == nil {
					fail("not-closed", "call %d returned the nil member", ci)
					continue
				}
				if seen[ch] {
					fail("duplicate", "call %d returned a channel twice", ci)
				}
				seen[ch] = true
				found := -1
				for i := range ro {
					if ro[i] == ch {
						found = i
					}
				}
				if found < 0 || !member[found] {
					fail("not-member", "call %d returned a channel that is not in the set", ci)
					continue
				}
				select {
				case <-ch:
				default:
					fail("not-closed", "call %d returned channel %d which is not closed", ci, found)
				}
				gotIdx = append(gotIdx, found)
			}
			sort.Ints(gotIdx)
			if oneOf {
				if len(gotIdx) == 0 {
					fail("empty-result", "call %d (settle 0) returned no channel and no error", ci)
				}
				for _, g := range gotIdx {
					ok := false
					for _, w := range wantSet {
						ok = ok || w == g
					}
					if !ok {
						fail("returned-set", "call %d returned channel %d which was not closed by the return time", ci, g)
					}
				}
			} else if fmt.Sprint(gotIdx) != fmt.Sprint(append([]int{}, wantSet...)) {
				fail("returned-set", "call %d returned %v, model says %v", ci, gotIdx, wantSet)
			}
			// set afterwards = members minus returned
			for _, g := range gotIdx {
				member[g] = false
				returnedOnce[g] = true
			}
			for i := range ro {
				if ws.Has(ro[i]) != member[i] {
					fail("membership", "after call %d: Has(channel %d)=%v, model says %v", ci, i, ws.Has(ro[i]), member[i])
				}
			}
			if violated != "" {
				break
			}
			// idle a little between calls; every call starts at x.1 ms so that starts (x.1), closes (x.0), cancellations (x.35)
			// and settle expiries (x.5 / x.6) can never coincide
			// between calls the set may grow: channels that were not members are added or merged in
			if rng.IntN(3) == 0 {
				grow := statedb.NewWatchSet()
				viaMerge := rng.IntN(2) == 0
				for i := range ro {
					if !member[i] && !returnedOnce[i] && rng.IntN(2) == 0 {
						member[i] = true
						if viaMerge {
							grow.Add(ro[i])
						} else {
							ws.Add(ro[i])
						}
						events = append(events, fmt.Sprintf("after call %d: channel %d joins the set (merge=%v)", ci, i, viaMerge))
					}
				}
				if viaMerge {
					ws.Merge(grow)
				}
			}
			off := time.Since(t0) % time.Millisecond
			time.Sleep(time.Duration(1+rng.IntN(20))*time.Millisecond - off + 100*time.Microsecond)
		}
		// a last call whose context has ended before the call: whether it reports the context or closed members is the select's
		// choice, but whatever left the set must have been returned, and nothing else
		if violated == "" && rng.IntN(3) == 0 {
			ctx, cancel := context.WithCancel(context.Background())
			cancel()
			settle := time.Duration(rng.IntN(2)) * 1500 * time.Microsecond
			got, err := ws.Wait(ctx, settle)
			r.Count("calls_with_ended_context", 1)
			ret := map[<-chan struct{}]bool{}
			for _, ch := range got {
				ret[ch] = true
				select {
				case <-ch:
				default:
					fail("not-closed", "Wait with an ended context returned an open channel")
				}
			}
			if err != nil && err != ctx.Err() {
				fail("error-value", "Wait with an ended context returned %v, the context's error is %v", err, ctx.Err())
			}
			if err == nil && len(got) == 0 {
				fail("empty-result", "Wait with an ended context returned neither channels nor an error")
			}
			for i := range ro {
				if ret[ro[i]] && !member[i] {
					fail("not-member", "Wait with an ended context returned channel %d which is not in the set", i)
				}
				if want := member[i] && !ret[ro[i]]; ws.Has(ro[i]) != want {
					fail("membership", "after a Wait with an ended context (returned %d channels, err=%v): Has(channel %d)=%v, member before=%v, returned=%v", len(got), err, i, ws.Has(ro[i]), member[i], ret[ro[i]])
				}
			}
		}
		wg.Wait()
	})
	r.Case(h.Sum(), nontrivial)
	if violated != "" {
		r.Violation(violated, idx, detail)
	}
	if r.WantSample() {
		r.Sample(map[string]any{"case": idx, "schedule": sc, "events": events})
	}
}

func TestVerif_Schedules(t *testing.T) {
	r := vkit.Start(t, "C20", "schedules", "exploration", rule)
	r.Assume("event times are distinct (closes at integer ms, cancellation at x.25 ms, settle expiry at x.5 ms) so that the model has no ties", "for a context that has ended before the call only consistency is judged (the select may report the context or closed members)")
	r.Require("wait_calls")
	n := vkit.N(100000, 1000000)
	if part, idx, ok := vkit.ReplayCase(); ok {
		if part == "schedules" {
			runSchedule(r, t, idx)
		}
	} else {
		for i := 0; i < n; i++ {
			r.LogCase(i)
			runSchedule(r, t, i)
		}
	}
	r.Finish()
}

// ---- concurrent use of one WatchSet (race detector) ----

const ruleConc = "real goroutines under the race detector: one WatchSet with 10-80 channels (at least one never closed), half added up front and half by an adder goroutine, " +
	"closed in random order by two closer goroutines, 2-4 goroutines calling Wait (settle 0 / 200 us / 1 ms, 2 ms deadline per call) in a loop and reading their results, a goroutine calling Has/HasAny; " +
	"oracle: across all Wait calls every channel is returned at most once, only added and closed channels are returned, no result contains a duplicate, an error is returned only when the call's context has ended and is that context's error, " +
	"and after the run Has(ch) is true exactly for added channels that were not returned; every closed channel must have been returned before the run is cancelled (30 s watchdog: inconclusive); " +
	"non-trivial = at least two different goroutines obtained results; distinct = hash of the parameters"

func concurrentRun(r *vkit.Run, idx int) {
	rng := r.Rand(idx)
	n := 10 + rng.IntN(71)
	never := 1 + rng.IntN(3)
	waiters := 2 + rng.IntN(3)
	settle := []time.Duration{0, 200 * time.Microsecond, time.Millisecond}[rng.IntN(3)]
	chans := make([]chan struct{}, n)
	ro := make([]<-chan struct{}, n)
	index := map[<-chan struct{}]int{}
	for i := range chans {
		chans[i] = make(chan struct{})
		ro[i] = chans[i]
		index[ro[i]] = i
	}
	h := vkit.NewHash()
	h.Str(fmt.Sprintf("%d/%d/%d/%v/%d", n, never, waiters, settle, idx))
	ws := statedb.NewWatchSet()
	// channels 0..never-1 are never closed and are added up front, so the set never becomes empty
	// (Wait on an empty set blocks on the context with the mutex held)
	half := never + (n-never)/2
	ws.Add(ro[:half]...)
	var (
		mu       sync.Mutex
		returned = make([]int, n)
		byWaiter = make([]int, waiters)
		nret     atomic.Int64
		closedAt = make([]atomic.Bool, n)
		problems []string
	)
	note := func(f string, a ...any) {
		mu.Lock()
		if len(problems) < 5 {
			problems = append(problems, fmt.Sprintf(f, a...))
		}
		mu.Unlock()
	}
	ctx, cancel := context.WithCancel(context.Background())
	var wg, bg sync.WaitGroup
	for w := 0; w < waiters; w++ {
		wg.Add(1)
		go func(w int) {
			defer wg.Done()
			for {
				// every call has its own 2 ms deadline: Wait holds the set's mutex while it blocks, so Add and Has get their turn
				// only when a Wait returns
				cctx, ccancel := context.WithTimeout(ctx, 2*time.Millisecond)
				got, err := ws.Wait(cctx, settle)
				if err != nil && cctx.Err() == nil {
					note("key=error Wait returned %v although its context has not ended", err)
				}
				if err != nil && err != cctx.Err() {
					note("key=error-value Wait returned %v, the context's error is %v", err, cctx.Err())
				}
				ccancel()
				seen := map[<-chan struct{}]bool{}
				for _, ch := range got {
					i, ok := index[ch]
					if !ok {
						note("key=not-member Wait returned a channel that was never added")
						continue
					}
					if seen[ch] {
						note("key=duplicate one result holds channel %d twice", i)
					}
					seen[ch] = true
					if !closedAt[i].Load() {
						select {
						case <-ch:
						default:
							note("key=not-closed Wait returned channel %d which is not closed", i)
						}
					}
					mu.Lock()
					returned[i]++
					if returned[i] == 2 {
						problems = append(problems, fmt.Sprintf("key=returned-twice channel %d was returned by two Wait calls although it was added once", i))
					}
					byWaiter[w]++
					mu.Unlock()
					nret.Add(1)
				}
				if ctx.Err() != nil {
					return
				}
			}
		}(w)
	}
	// adder
	bg.Add(1)
	var chunks []int
	for i := half; i < n; {
		k := min(n, i+1+rng.IntN(5))
		chunks = append(chunks, k)
		i = k
	}
	go func() {
		defer bg.Done()
		i := half
		for _, k := range chunks {
			ws.Add(ro[i:k]...)
			i = k
			runtime.Gosched()
		}
	}()
	// closers
	order := rng.Perm(n - never)
	seeds := []uint64{rng.Uint64(), rng.Uint64()}
	for c := 0; c < 2; c++ {
		bg.Add(1)
		go func(c int) {
			defer bg.Done()
			x := seeds[c]
			for j := c; j < len(order); j += 2 {
				i := never + order[j]
				closedAt[i].Store(true)
				close(chans[i])
				x = x*6364136223846793005 + 1442695040888963407
				switch x >> 62 {
				case 0:
					time.Sleep(time.Duration(x>>40%200) * time.Microsecond)
				case 1:
					runtime.Gosched()
				}
			}
		}(c)
	}
	// prober
	stopProbe := make(chan struct{})
	var probes atomic.Int64
	var pg sync.WaitGroup
	pg.Add(1)
	go func() {
		defer pg.Done()
		x := uint64(idx)*2654435761 + 1
		for {
			select {
			case <-stopProbe:
				return
			default:
			}
			x = x*6364136223846793005 + 1442695040888963407
			i := int(x >> 33 % uint64(n))
			mu.Lock()
			was := returned[i] > 0
			mu.Unlock()
			if ws.Has(ro[i]) && was {
				note("key=membership Has(channel %d) is true after a Wait returned it", i)
			}
			if i < never && !ws.HasAny(ro[:never]) {
				note("key=membership HasAny(never-closed channels) is false")
			}
			probes.Add(1)
			time.Sleep(50 * time.Microsecond)
		}
	}()
	bg.Wait()
	want := int64(n - never)
	deadline := time.Now().Add(30 * time.Second)
	for nret.Load() < want && time.Now().Before(deadline) {
		time.Sleep(200 * time.Microsecond)
	}
	complete := nret.Load() >= want
	cancel()
	wg.Wait()
	close(stopProbe)
	pg.Wait()
	r.Count("concurrent_wait_results", nret.Load())
	r.Count("has_probes", probes.Load())
	active := 0
	for _, b := range byWaiter {
		if b > 0 {
			active++
		}
	}
	r.Max("waiters_with_results", int64(active))
	if !complete {
		// closed members that were never returned although waiters kept calling Wait: decided as a violation only if the
		// waiters were live, which the 30 s wall-clock bound cannot tell apart from a starved machine
		r.Inconclusive(fmt.Sprintf("concurrent run %d: %d of %d closed channels returned within 30 s", idx, nret.Load(), want))
	} else {
		for i := range ro {
			mu.Lock()
			ret := returned[i] > 0
			mu.Unlock()
			if ws.Has(ro[i]) == ret {
				note("key=membership after the run Has(channel %d)=%v, returned=%v", i, ws.Has(ro[i]), ret)
			}
		}
	}
	r.Case(h.Sum(), active >= 2)
	for _, p := range problems {
		key := "concurrent/other"
		if strings.HasPrefix(p, "key=") {
			f := strings.SplitN(p[4:], " ", 2)
			key, p = "concurrent/"+f[0], f[1]
		}
		r.Violation(key, idx, map[string]any{"message": p, "channels": n, "never_closed": never, "waiters": waiters, "settle": settle.String()})
	}
}

func TestVerifRace_ConcurrentWaits(t *testing.T) {
	r := vkit.Start(t, "C20", "concurrent-waits", "exploration", ruleConc)
	r.Require("concurrent_wait_results")
	r.ParallelCases(vkit.N(200, 5000), 4, func(i int) { concurrentRun(r, i) })
	r.Finish()
}

var (
	libClosedOnce sync.Once
	libClosed     <-chan struct{}
)

// libraryClosedChannel returns the shared pre-closed watch channel of the library, as the public API hands it out.
func libraryClosedChannel() <-chan struct{} {
	libClosedOnce.Do(func() {
		db := statedb.New()
		tbl, err := statedb.NewTable(db, "c20", statedb.Index[*c20obj, uint64]{
			Name:       "id",
			FromObject: func(o *c20obj) index.KeySet { return index.NewKeySet(index.Uint64(o.ID)) },
			FromKey:    index.Uint64,
			Unique:     true,
		})
		if err != nil {
			panic(err)
		}
		_, libClosed = tbl.Initialized(db.ReadTxn())
	})
	return libClosed
}

type c20obj struct{ ID uint64 }

func (*c20obj) TableHeader() []string { return []string{"ID"} }
func (o *c20obj) TableRow() []string  { return []string{fmt.Sprint(o.ID)} }

// reflect.Select takes at most 65536 cases: a set of 65535 members (plus the context) is the largest that can be waited on.
func TestVerif_LargeSet(t *testing.T) {
	r := vkit.Start(t, "C20", "large-set", "exploration", "sets of 1024, 65534 and 65535 members (the largest reflect.Select can take together with the context): a closed member is returned and removed, with a live context and no closed member the call waits for the context")
	r.Require("large_set_probes")
	for i, n := range []int{1024, 65534, 65535} {
		ws := statedb.NewWatchSet()
		chans := make([]chan struct{}, n)
		for k := range chans {
			chans[k] = make(chan struct{})
			ws.Add(chans[k])
		}
		ctx, cancel := context.WithTimeout(context.Background(), 300*time.Millisecond)
		got, err := ws.Wait(ctx, 0)
		cancel()
		if err == nil || err != ctx.Err() || len(got) != 0 {
			r.Violation("large-set", i, map[string]any{"message": fmt.Sprintf("%d open members, context with a deadline: Wait returned %d channels, err=%v (want none and the context's error)", n, len(got), err)})
		}
		close(chans[n/2])
		ctx, cancel = context.WithTimeout(context.Background(), 20*time.Second)
		got, err = ws.Wait(ctx, 0)
		cancel()
		if err != nil || len(got) != 1 || got[0] != (<-chan struct{})(chans[n/2]) || ws.Has(chans[n/2]) || !ws.Has(chans[0]) {
			r.Violation("large-set", i, map[string]any{"message": fmt.Sprintf("%d members, one closed: Wait returned %d channels, err=%v, Has(closed)=%v", n, len(got), err, ws.Has(chans[n/2]))})
		}
		r.Count("large_set_probes", 1)
		r.Case(uint64(n), true)
	}
	r.Finish()
}
