package c20

import (
	"context"
	"fmt"
	"sort"
	"sync"
	"testing"
	"testing/synctest"
	"time"

	"github.com/cilium/statedb"

	"verifharness/vkit"
)

const rule = "random schedules under virtual time (testing/synctest): 0..12 channels (pre-closed, closing at distinct integer milliseconds, or never), set built with Add (with duplicates) / Clear / Merge, " +
	"settle time 0 or k+0.5 ms, cancellation at a distinct millisecond, up to 3 consecutive Wait calls on the same set; return time, returned set, error and Has() of every channel are compared with the model; " +
	"non-trivial = the set was non-empty at the call; distinct = hash of the schedule"

type sched struct {
	N       int       `json:"channels"`
	CloseAt []int     `json:"close_at_ms"` // -1 never, 0 pre-closed
	InSet   []bool    `json:"in_set"`
	Calls   []callDef `json:"calls"`
}

type callDef struct {
	SettleUS int `json:"settle_us"`
	CancelMS int `json:"cancel_after_start_ms"` // relative to call start; -1 never
}

func runSchedule(r *vkit.Run, t *testing.T, idx int) {
	rng := r.Rand(idx)
	sc := sched{N: rng.IntN(13)}
	used := map[int]bool{}
	for i := 0; i < sc.N; i++ {
		switch rng.IntN(5) {
		case 0:
			sc.CloseAt = append(sc.CloseAt, 0)
		case 1:
			sc.CloseAt = append(sc.CloseAt, -1)
		default:
			for {
				c := 1 + rng.IntN(120)
				if !used[c] {
					used[c] = true
					sc.CloseAt = append(sc.CloseAt, c)
					break
				}
			}
		}
		sc.InSet = append(sc.InSet, rng.IntN(6) > 0)
	}
	ncalls := 1 + rng.IntN(3)
	for c := 0; c < ncalls; c++ {
		cd := callDef{}
		if rng.IntN(3) > 0 {
			cd.SettleUS = rng.IntN(30)*1000 + 500
		}
		cd.CancelMS = -1
		sc.Calls = append(sc.Calls, cd)
	}

	h := vkit.NewHash()
	h.Str(fmt.Sprintf("%+v", sc))
	var violated string
	var detail map[string]any
	var events []string
	nontrivial := false

	synctest.Test(t, func(t *testing.T) {
		t0 := time.Now()
		ms := func(d time.Duration) float64 { return float64(d) / float64(time.Millisecond) }
		chans := make([]chan struct{}, sc.N)
		ro := make([]<-chan struct{}, sc.N)
		var wg sync.WaitGroup
		for i := range chans {
			chans[i] = make(chan struct{})
			ro[i] = chans[i]
			switch {
			case sc.CloseAt[i] == 0:
				close(chans[i])
			case sc.CloseAt[i] > 0:
				wg.Add(1)
				go func(i int) {
					defer wg.Done()
					time.Sleep(time.Duration(sc.CloseAt[i]) * time.Millisecond)
					close(chans[i])
				}(i)
			}
		}
		// Build the set with Add (duplicates), Clear and Merge.
		ws := statedb.NewWatchSet()
		member := make([]bool, sc.N)
		if rng.IntN(4) == 0 && sc.N > 0 {
			// junk then Clear
			ws.Add(ro[rng.IntN(sc.N)])
			ws.Clear()
		}
		other := statedb.NewWatchSet()
		for i := 0; i < sc.N; i++ {
			if !sc.InSet[i] {
				continue
			}
			member[i] = true
			switch rng.IntN(3) {
			case 0:
				ws.Add(ro[i])
			case 1:
				ws.Add(ro[i], ro[i])
			default:
				other.Add(ro[i])
			}
		}
		ws.Merge(other)

		closedBy := func(at time.Duration) []int { // members closed at or before 'at' (relative to t0)
			var out []int
			for i := 0; i < sc.N; i++ {
				if member[i] && sc.CloseAt[i] >= 0 && time.Duration(sc.CloseAt[i])*time.Millisecond <= at {
					out = append(out, i)
				}
			}
			return out
		}
		fail := func(key string, f string, a ...any) {
			if violated == "" {
				violated = key
				detail = map[string]any{"message": fmt.Sprintf(f, a...), "schedule": sc, "events": events}
			}
		}

		time.Sleep(100 * time.Microsecond)
		for ci := range sc.Calls {
			cd := &sc.Calls[ci]
			start := time.Since(t0)
			// first close among members at or after start (pre-closed count as start)
			first := time.Duration(-1)
			anyMember := false
			for i := 0; i < sc.N; i++ {
				if !member[i] {
					continue
				}
				anyMember = true
				if sc.CloseAt[i] < 0 {
					continue
				}
				c := max(time.Duration(sc.CloseAt[i])*time.Millisecond, start)
				if first < 0 || c < first {
					first = c
				}
			}
			if anyMember {
				nontrivial = true
			}
			// choose the cancel time for this call: distinct from all close times (we use x.25 ms offsets)
			if first < 0 || rng.IntN(3) == 0 {
				cd.CancelMS = 1 + rng.IntN(150)
			}
			settle := time.Duration(cd.SettleUS) * time.Microsecond
			ctx, cancel := context.WithCancel(context.Background())
			cancelAt := time.Duration(-1)
			if cd.CancelMS >= 0 {
				cancelAt = start + time.Duration(cd.CancelMS)*time.Millisecond + 250*time.Microsecond
				wg.Add(1)
				go func(d time.Duration) {
					defer wg.Done()
					time.Sleep(d)
					cancel()
				}(cancelAt - start)
			}
			// model
			var wantRet time.Duration
			wantErr := false
			var wantSet []int
			oneOf := false
			switch {
			case first < 0 || cancelAt >= 0 && cancelAt < first:
				wantRet, wantErr = cancelAt, true
			case settle == 0:
				wantRet = first
				wantSet = closedBy(first)
				oneOf = true
			default:
				wantRet = first + settle
				if cancelAt >= 0 && cancelAt < wantRet {
					wantRet, wantErr = cancelAt, true
				}
				wantSet = closedBy(wantRet)
			}
			got, err := ws.Wait(ctx, settle)
			ret := time.Since(t0)
			events = append(events, fmt.Sprintf("call %d: start=%.2fms settle=%.2fms cancelAt=%.2fms -> returned %d channels err=%v at %.2fms (model: at %.2fms err=%v set=%v oneOf=%v)",
				ci, ms(start), ms(settle), ms(cancelAt), len(got), err, ms(ret), ms(wantRet), wantErr, wantSet, oneOf))
			cancel()
			r.Count("wait_calls", 1)
			if ret != wantRet {
				fail("return-time", "call %d returned at %.2fms, model says %.2fms", ci, ms(ret), ms(wantRet))
			}
			if (err != nil) != wantErr {
				fail("error", "call %d: err=%v, model wants error=%v", ci, err, wantErr)
			}
			if err != nil && err != ctx.Err() {
				fail("error-value", "call %d: err=%v is not the context's error %v", ci, err, ctx.Err())
			}
			// returned channels: added, closed, no duplicates
			gotIdx := []int{}
			seen := map[<-chan struct{}]bool{}
			for _, ch := range got {
				if seen[ch] {
					fail("duplicate", "call %d returned a channel twice", ci)
				}
				seen[ch] = true
				found := -1
				for i := range ro {
					if ro[i] == ch {
						found = i
					}
				}
				if found < 0 || !member[found] {
					fail("not-member", "call %d returned a channel that is not in the set", ci)
					continue
				}
				select {
				case <-ch:
				default:
					fail("not-closed", "call %d returned channel %d which is not closed", ci, found)
				}
				gotIdx = append(gotIdx, found)
			}
			sort.Ints(gotIdx)
			if oneOf {
				if len(gotIdx) == 0 {
					fail("empty-result", "call %d (settle 0) returned no channel and no error", ci)
				}
				for _, g := range gotIdx {
					ok := false
					for _, w := range wantSet {
						ok = ok || w == g
					}
					if !ok {
						fail("returned-set", "call %d returned channel %d which was not closed by the return time", ci, g)
					}
				}
			} else if fmt.Sprint(gotIdx) != fmt.Sprint(append([]int{}, wantSet...)) {
				fail("returned-set", "call %d returned %v, model says %v", ci, gotIdx, wantSet)
			}
			// set afterwards = members minus returned
			for _, g := range gotIdx {
				member[g] = false
			}
			for i := range ro {
				if ws.Has(ro[i]) != member[i] {
					fail("membership", "after call %d: Has(channel %d)=%v, model says %v", ci, i, ws.Has(ro[i]), member[i])
				}
			}
			if violated != "" {
				break
			}
			// idle a little between calls; every call starts at x.1 ms so that starts (x.1), closes (x.0), cancellations (x.35)
			// and settle expiries (x.5 / x.6) can never coincide
			off := time.Since(t0) % time.Millisecond
			time.Sleep(time.Duration(1+rng.IntN(20))*time.Millisecond - off + 100*time.Microsecond)
		}
		wg.Wait()
	})
	r.Case(h.Sum(), nontrivial)
	if violated != "" {
		r.Violation(violated, idx, detail)
	}
	if r.WantSample() {
		r.Sample(map[string]any{"case": idx, "schedule": sc, "events": events})
	}
}

func TestVerif_Schedules(t *testing.T) {
	r := vkit.Start(t, "C20", "schedules", "exploration", rule)
	r.Assume("event times are distinct (closes at integer ms, cancellation at x.25 ms, settle expiry at x.5 ms) so that the model has no ties", "the context is not cancelled before the call")
	r.Require("wait_calls")
	n := vkit.N(100000, 1000000)
	if part, idx, ok := vkit.ReplayCase(); ok {
		if part == "schedules" {
			runSchedule(r, t, idx)
		}
	} else {
		for i := 0; i < n; i++ {
			r.LogCase(i)
			runSchedule(r, t, i)
		}
	}
	r.Finish()
}
