package partsim

import (
	"bytes"
	"fmt"
	"sort"

	"github.com/cilium/statedb/part"

	"verifharness/vkit"
)

var alphabets = [][]byte{
	{0x00, 0x01, 0x02, 0xff},
	[]byte("abcdefghijklmnopqrst"),
	nil, // 70 letters, filled in init
	nil, // 200 letters
}

func init() {
	for i := 0; i < 70; i++ {
		alphabets[2] = append(alphabets[2], byte(0x20+i))
	}
	for i := 0; i < 200; i++ {
		alphabets[3] = append(alphabets[3], byte(i+20))
	}
}

// RunHistory executes one random history. Returns true if no violation was found.
func RunHistory(r *vkit.Run, caseIdx int, o Opts) {
	s := &sim{r: r, idx: caseIdx, rng: r.Rand(caseIdx), o: o, fp: vkit.NewHash()}
	ai := s.rng.IntN(len(alphabets))
	s.alph = alphabets[ai]
	s.maxL = []int{4, 3, 3, 2}[ai]
	var opts []part.Option
	if o.RootOnly {
		opts = append(opts, part.RootOnlyWatch)
	}
	if o.LongKeys {
		// nested stems: x^a, x^b (a < b), x^a y^c; lengths around the one-byte and the typical buffer boundaries
		lens := []int{200, 255, 256, 257, 300, 1000, 4000}
		a := lens[s.rng.IntN(len(lens))]
		b := a + []int{1, 2, 255, 256, 1000}[s.rng.IntN(5)]
		s.stems = [][]byte{bytes.Repeat([]byte{'x'}, a), bytes.Repeat([]byte{'x'}, b), append(bytes.Repeat([]byte{'x'}, a), bytes.Repeat([]byte{'y'}, 1+s.rng.IntN(300))...)}
		s.maxL = 2
	}
	s.cur = part.New[uint64](opts...)
	s.curModel = map[string]uint64{}
	s.logf("alphabet=%d rootOnly=%v", ai, o.RootOnly)
	defer func() {
		if p := recover(); p != nil {
			tail := s.log
			if len(tail) > 400 {
				tail = tail[len(tail)-400:]
			}
			// a panic inside part is a violation of both oracles' common precondition (C11)
			s.failed = true
			r.Violation("panic/"+fmt.Sprint(p)[:min(60, len(fmt.Sprint(p)))], caseIdx, map[string]any{"panic": fmt.Sprint(p), "history": tail})
		}
	}()

	ntx := o.Txns
	for t := 0; t < ntx && !s.failed; t++ {
		switch x := s.rng.IntN(100); {
		case x < 70:
			s.mainTxn(t)
		case x < 80:
			s.singleOp(t)
		case x < 90:
			s.sideBranch(t)
		default:
			s.watchQueries(t)
		}
		if s.rng.IntN(3) == 0 {
			s.watchQueries(t)
		}
	}
	nontrivial := false
	if o.CheckContents && s.persistChk > 0 {
		nontrivial = true
	}
	if o.CheckWatches && s.watchJudge > 1 {
		nontrivial = true
	}
	r.Case(s.fp.Sum(), nontrivial)
	r.Count("persistence_rechecks", int64(s.persistChk))
	r.Count("watch_verdicts", int64(s.watchJudge))
	r.Count("ops", int64(len(s.log)))
	r.Count("notified_commits", int64(s.noteCommit))
	if r.WantSample() {
		tail := s.log
		if len(tail) > 60 {
			tail = tail[:60]
		}
		r.Sample(map[string]any{"case": caseIdx, "first_ops": tail, "total_ops": len(s.log)})
	}
}

// watchQueries takes watch channels from the current committed tree.
func (s *sim) watchQueries(t int) {
	n := 1 + s.rng.IntN(4)
	for i := 0; i < n; i++ {
		k := s.genKey()
		switch s.rng.IntN(3) {
		case 0:
			_, ch, _ := s.cur.Get(k)
			s.logf("watch get %x", k)
			s.retainWatch(&watch{ch: ch, kind: "get", key: string(k), origin: fmt.Sprintf("tree@t%d", t)})
		case 1:
			_, ch := s.cur.Prefix(k)
			s.logf("watch prefix %x", k)
			s.retainWatch(&watch{ch: ch, kind: "prefix", key: string(k), origin: fmt.Sprintf("tree@t%d", t)})
		default:
			s.logf("watch root")
			s.retainWatch(&watch{ch: s.cur.RootWatch(), kind: "root", origin: fmt.Sprintf("tree@t%d", t)})
		}
	}
}

func (s *sim) newVal() uint64 {
	s.nextVal++
	return s.nextVal
}

func modFn(old, new uint64) uint64 { return old*1000003 + new }

// applyWrite performs one write on txn and the model; returns false on mismatch.
func (s *sim) applyWrite(what string, txn *part.Txn[uint64], tm map[string]uint64, ts *txnState, kind int, k []byte) {
	ks := string(k)
	mOld, mHad := tm[ks]
	switch kind {
	case 0: // Insert
		v := s.newVal()
		old, had := txn.Insert(k, v)
		s.logf("%s insert %x=%d", what, k, v)
		if had != mHad || (had && old != mOld) {
			s.violate(true, "contents/insert-return", "%s Insert(%x) returned (%d,%v) want (%d,%v)", what, k, old, had, mOld, mHad)
		}
		tm[ks] = v
		s.noteKeyChange(ts, ks)
	case 1: // InsertWatch
		v := s.newVal()
		old, had, ch := txn.InsertWatch(k, v)
		s.logf("%s insertwatch %x=%d", what, k, v)
		if had != mHad || (had && old != mOld) {
			s.violate(true, "contents/insert-return", "%s InsertWatch(%x) returned (%d,%v) want (%d,%v)", what, k, old, had, mOld, mHad)
		}
		tm[ks] = v
		s.noteKeyChange(ts, ks)
		if ts.main {
			s.retainWatch(&watch{ch: ch, kind: "insertwatch", key: ks, origin: what, fresh: true})
		}
	case 2: // Modify
		v := s.newVal()
		old, nv, had := txn.Modify(k, v, modFn)
		s.logf("%s modify %x+=%d", what, k, v)
		want := v
		if mHad {
			want = modFn(mOld, v)
		}
		if had != mHad || (had && old != mOld) || nv != want {
			s.violate(true, "contents/modify-return", "%s Modify(%x) returned (%d,%d,%v) want (%d,%d,%v)", what, k, old, nv, had, mOld, want, mHad)
		}
		tm[ks] = want
		s.noteKeyChange(ts, ks)
	case 3: // ModifyWatch
		v := s.newVal()
		old, nv, had, ch := txn.ModifyWatch(k, v, modFn)
		s.logf("%s modifywatch %x+=%d", what, k, v)
		want := v
		if mHad {
			want = modFn(mOld, v)
		}
		if had != mHad || (had && old != mOld) || nv != want {
			s.violate(true, "contents/modify-return", "%s ModifyWatch(%x) returned (%d,%d,%v) want (%d,%d,%v)", what, k, old, nv, had, mOld, want, mHad)
		}
		tm[ks] = want
		s.noteKeyChange(ts, ks)
		if ts.main {
			s.retainWatch(&watch{ch: ch, kind: "insertwatch", key: ks, origin: what, fresh: true})
		}
	default: // Delete
		old, had := txn.Delete(k)
		s.logf("%s delete %x", what, k)
		if had != mHad || (had && old != mOld) {
			s.violate(true, "contents/delete-return", "%s Delete(%x) returned (%d,%v) want (%d,%v)", what, k, old, had, mOld, mHad)
		}
		if mHad {
			delete(tm, ks)
			s.noteKeyChange(ts, ks)
		}
	}
}

func (s *sim) txnReads(what string, txn *part.Txn[uint64], tm map[string]uint64, ts *txnState) {
	k := s.genKey()
	all := sortedEntries(tm)
	switch s.rng.IntN(8) {
	case 0:
		v, ch, ok := txn.Get(k)
		s.logf("%s get %x", what, k)
		mv, mok := tm[string(k)]
		if ok != mok || (ok && v != mv) {
			s.violate(true, "contents/txn-get", "%s Get(%x)=(%d,%v) want (%d,%v)", what, k, v, ok, mv, mok)
		}
		if ts.main {
			s.retainWatch(&watch{ch: ch, kind: "get", key: string(k), origin: what, fresh: true})
		}
	case 1:
		it, ch := txn.Prefix(k)
		s.logf("%s prefix %x", what, k)
		want := expectPrefix(all, string(k))
		if got := collect(it); !eqEntries(got, want) {
			s.violate(true, "contents/txn-prefix", "%s Prefix(%x): got [%s] want [%s]", what, k, fmtEntries(got), fmtEntries(want))
		}
		s.retainIter(what+fmt.Sprintf(" prefix %x", k), it, want)
		if ts.main {
			s.retainWatch(&watch{ch: ch, kind: "prefix", key: string(k), origin: what, fresh: true})
		}
	case 2:
		it := txn.LowerBound(k)
		s.logf("%s lowerbound %x", what, k)
		want := expectLower(all, string(k))
		if got := collect(it); !eqEntries(got, want) {
			s.violate(true, "contents/txn-lowerbound", "%s LowerBound(%x): got [%s] want [%s]", what, k, fmtEntries(got), fmtEntries(want))
		}
		s.retainIter(what+fmt.Sprintf(" lowerbound %x", k), it, want)
	case 3:
		it := txn.Iterator()
		s.logf("%s iterator", what)
		if got := collect(it); !eqEntries(got, all) {
			s.violate(true, "contents/txn-iterator", "%s Iterator: got [%s] want [%s]", what, fmtEntries(got), fmtEntries(all))
		}
		s.retainIter(what+" iterator", it, all)
	case 4:
		c := txn.Clone()
		s.logf("%s clone", what)
		s.verifyOps(what+" clone", &c, tm, 2)
		s.retainVersion(what+" clone", c, tm, true)
	case 5:
		s.logf("%s verify", what)
		s.verifyOps(what, txn, tm, 3)
	case 6:
		// half of the time the loop body writes to the transaction it iterates: All iterates the contents at the time of the call
		writes := 0
		if s.rng.IntN(2) == 0 {
			writes = 1 + s.rng.IntN(3)
		}
		s.logf("%s all (writes inside the loop: %d)", what, writes)
		var got []entry
		txn.All(func(k []byte, v uint64) bool {
			got = append(got, entry{string(k), v})
			if writes > 0 && !s.failed && s.rng.IntN(len(all)) < 3 {
				writes--
				wk := s.genKey()
				if s.rng.IntN(2) == 0 {
					wk = []byte(all[s.rng.IntN(len(all))].K) // an existing key: often the one just yielded or one still to come
				}
				s.logf("%s (next write is inside the All loop)", what)
				s.applyWrite(what, txn, tm, ts, s.rng.IntN(6), wk) // same origin tag: its watch channels belong to this transaction
			}
			return true
		})
		if !eqEntries(got, all) {
			s.violate(true, "contents/txn-all", "%s All: got [%s] want [%s]", what, fmtEntries(got), fmtEntries(all))
		}
	default:
		if ts.main {
			s.logf("%s rootwatch", what)
			s.retainWatch(&watch{ch: txn.RootWatch(), kind: "root", origin: what, fresh: true})
		}
	}
}

// runOps drives a transaction body: random / grow-fanout / shrink-fanout phases.
func (s *sim) runOps(what string, txn *part.Txn[uint64], tm map[string]uint64, ts *txnState) {
	nops := s.rng.IntN(s.o.MaxOps + 1)
	mode := s.rng.IntN(10)
	var before map[*watch]bool
	if ts.main {
		before = s.closedSet()
	}
	switch {
	case mode < 6 || len(s.alph) < 5 && mode < 8:
		for i := 0; i < nops && !s.failed; i++ {
			if s.rng.IntN(100) < 70 {
				s.applyWrite(what, txn, tm, ts, s.rng.IntN(6), s.genKey())
			} else {
				s.txnReads(what, txn, tm, ts)
			}
		}
	case mode < 8: // grow fan-out under a prefix
		p := s.genKey()
		if len(p) >= s.maxL {
			p = p[:s.maxL-1]
		}
		perm := s.rng.Perm(len(s.alph))
		n := s.rng.IntN(len(s.alph) + 1)
		s.logf("%s grow %x n=%d", what, p, n)
		for i := 0; i < n && !s.failed; i++ {
			k := append(bytes.Clone(p), s.alph[perm[i]])
			if len(k) < s.maxL && s.rng.IntN(3) == 0 {
				k = append(k, s.alph[s.rng.IntN(len(s.alph))])
			}
			s.applyWrite(what, txn, tm, ts, s.rng.IntN(2)*2, k)
			if s.rng.IntN(12) == 0 {
				s.txnReads(what, txn, tm, ts)
			}
		}
	case mode == 8 && s.rng.IntN(3) == 0: // deep chain: every prefix of a long nested key is itself a key (tree depth 20-70)
		depth := 20 + s.rng.IntN(50)
		unit := [][]byte{[]byte("/d"), {0x00}, []byte("ab")}[s.rng.IntN(3)]
		s.logf("%s chain unit=%x depth=%d", what, unit, depth)
		var k []byte
		for i := 0; i < depth && !s.failed; i++ {
			k = append(k, unit...)
			s.applyWrite(what, txn, tm, ts, 0, bytes.Clone(k))
		}
		// delete a few of the deep keys again (some in this transaction, most are left for later transactions)
		for i := 0; i < 3 && !s.failed; i++ {
			d := 1 + s.rng.IntN(depth)
			s.applyWrite(what, txn, tm, ts, 4, bytes.Repeat(unit, d))
		}
	case mode == 9 && s.rng.IntN(3) == 0 && len(s.alph) >= 3:
		// comb: a chain u, uu, uuu, ... with one or two larger siblings at every level, so that a LowerBound iterator positioned at
		// the end of the chain carries one pending edge set per level (more than the 32 an iterator keeps on its stack)
		alph := append([]byte(nil), s.alph...)
		sort.Slice(alph, func(i, j int) bool { return alph[i] < alph[j] })
		u, b1, b2 := alph[0], alph[1], alph[len(alph)-1]
		depth := 25 + s.rng.IntN(50)
		s.logf("%s comb unit=%x depth=%d", what, u, depth)
		var k []byte
		for i := 0; i < depth && !s.failed; i++ {
			s.applyWrite(what, txn, tm, ts, 0, append(bytes.Clone(k), b1))
			if i%3 == 0 {
				s.applyWrite(what, txn, tm, ts, 0, append(bytes.Clone(k), b2))
			}
			k = append(k, u)
			if s.rng.IntN(3) > 0 {
				s.applyWrite(what, txn, tm, ts, 0, bytes.Clone(k))
			}
		}
		s.applyWrite(what, txn, tm, ts, 0, bytes.Clone(k))
		// an iterator positioned deep in the comb, iterated twice, then advanced and iterated again, and kept
		from := k[:len(k)-s.rng.IntN(5)]
		it := txn.LowerBound(from)
		want := expectLower(sortedEntries(tm), string(from))
		for pass := 0; pass < 2; pass++ {
			if got := collect(it); !eqEntries(got, want) {
				s.violate(true, "contents/txn-lowerbound", "%s LowerBound(%x) on the comb, pass %d: got [%s] want [%s]", what, from, pass, fmtEntries(got), fmtEntries(want))
			}
		}
		for n := s.rng.IntN(4); n > 0 && len(want) > 0; n-- {
			kk, v, ok := it.Next()
			if !ok || string(kk) != want[0].K || v != want[0].V {
				s.violate(true, "persistence/iterator-next", "%s LowerBound(%x) on the comb: Next()=(%x,%d,%v) want %x=%d", what, from, kk, v, ok, want[0].K, want[0].V)
			}
			want = want[1:]
		}
		if got := collect(it); !eqEntries(got, want) {
			s.violate(true, "contents/txn-lowerbound", "%s LowerBound(%x) on the comb after Next: got [%s] want [%s]", what, from, fmtEntries(got), fmtEntries(want))
		}
		s.retainIter(what+fmt.Sprintf(" comb lowerbound %x", from), it, want)
	default: // shrink fan-out under a prefix
		p := s.genKey()
		if len(p) > 0 {
			p = p[:s.rng.IntN(len(p))]
		}
		victims := expectPrefix(sortedEntries(tm), string(p))
		s.rng.Shuffle(len(victims), func(i, j int) { victims[i], victims[j] = victims[j], victims[i] })
		n := len(victims)
		if n > 0 && s.rng.IntN(2) == 0 {
			n = s.rng.IntN(n + 1)
		}
		s.logf("%s shrink %x n=%d", what, p, n)
		for i := 0; i < n && !s.failed; i++ {
			s.applyWrite(what, txn, tm, ts, 4, []byte(victims[i].K))
			if s.rng.IntN(12) == 0 {
				s.txnReads(what, txn, tm, ts)
			}
		}
	}
	if ts.main {
		s.noNewCloses(before, "during-txn")
	}
}

func (s *sim) mainTxn(t int) {
	what := fmt.Sprintf("t%d", t)
	prevRoot := s.cur.RootWatch()
	base := s.cur
	txn := base.Txn()
	tm := cloneModel(s.curModel)
	ts := &txnState{touched: map[string]bool{}, main: true}
	before := s.closedSet()
	s.runOps(what, txn, tm, ts)
	if s.failed {
		return
	}
	switch x := s.rng.IntN(10); {
	case x < 2:
		// abandon
		s.logf("%s abandon", what)
		s.noNewCloses(before, "after-abandon")
		for _, w := range s.watches {
			w.fresh = false
			w.pending = false
		}
		// Watches obtained inside the abandoned transaction refer to nodes nobody will ever change: drop them.
		keep := s.watches[:0]
		for _, w := range s.watches {
			if w.origin != what {
				keep = append(keep, w)
			}
		}
		s.watches = keep
		s.verifyOps("cur after abandon", &s.cur, s.curModel, 2)
		s.verifyRetained(false)
		return
	case x < 6:
		s.logf("%s commit;notify", what)
		nt := txn.Commit()
		s.noNewCloses(before, "between-commit-and-notify")
		if isClosed(prevRoot) {
			s.violate(false, "watch/closed-outside-notify/root", "%s: previous root watch closed before Notify", what)
		}
		txn.Notify()
		s.cur = nt
	default:
		s.logf("%s commitAndNotify", what)
		s.cur = txn.CommitAndNotify()
	}
	s.noteCommit++
	s.curModel = tm
	s.judgeAfterNotify(ts, prevRoot, before, what)
	s.verifyOps("cur "+what, &s.cur, s.curModel, 4)
	if s.rng.IntN(2) == 0 {
		s.retainVersion("v"+what, s.cur, s.curModel)
	}
	if s.rng.IntN(3) == 0 {
		k := s.genKey()
		all := sortedEntries(s.curModel)
		switch s.rng.IntN(3) {
		case 0:
			s.retainIter("tree iterator "+what, s.cur.Iterator(), all)
		case 1:
			it, _ := s.cur.Prefix(k)
			s.retainIter(fmt.Sprintf("tree prefix %x %s", k, what), it, expectPrefix(all, string(k)))
		default:
			s.retainIter(fmt.Sprintf("tree lowerbound %x %s", k, what), s.cur.LowerBound(k), expectLower(all, string(k)))
		}
	}
	s.verifyRetained(ts.changeOps > 0)
}

// singleOp uses Tree.Insert/Modify/Delete (one-operation notified transactions).
func (s *sim) singleOp(t int) {
	what := fmt.Sprintf("t%d single", t)
	prevRoot := s.cur.RootWatch()
	before := s.closedSet()
	ts := &txnState{touched: map[string]bool{}, main: true}
	k := s.genKey()
	ks := string(k)
	mOld, mHad := s.curModel[ks]
	tm := cloneModel(s.curModel)
	var nt part.Tree[uint64]
	switch s.rng.IntN(3) {
	case 0:
		v := s.newVal()
		old, had, tr := s.cur.Insert(k, v)
		s.logf("%s Tree.Insert %x=%d", what, k, v)
		if had != mHad || (had && old != mOld) {
			s.violate(true, "contents/insert-return", "%s Tree.Insert(%x) returned (%d,%v) want (%d,%v)", what, k, old, had, mOld, mHad)
		}
		tm[ks] = v
		s.noteKeyChange(ts, ks)
		nt = tr
	case 1:
		v := s.newVal()
		old, had, tr := s.cur.Modify(k, v, modFn)
		s.logf("%s Tree.Modify %x+=%d", what, k, v)
		if had != mHad || (had && old != mOld) {
			s.violate(true, "contents/modify-return", "%s Tree.Modify(%x) returned (%d,%v) want (%d,%v)", what, k, old, had, mOld, mHad)
		}
		if mHad {
			tm[ks] = modFn(mOld, v)
		} else {
			tm[ks] = v
		}
		s.noteKeyChange(ts, ks)
		nt = tr
	default:
		old, had, tr := s.cur.Delete(k)
		s.logf("%s Tree.Delete %x", what, k)
		if had != mHad || (had && old != mOld) {
			s.violate(true, "contents/delete-return", "%s Tree.Delete(%x) returned (%d,%v) want (%d,%v)", what, k, old, had, mOld, mHad)
		}
		if mHad {
			delete(tm, ks)
			s.noteKeyChange(ts, ks)
		}
		nt = tr
	}
	s.cur = nt
	s.curModel = tm
	s.noteCommit++
	s.judgeAfterNotify(ts, prevRoot, before, what)
	s.verifyOps("cur "+what, &s.cur, s.curModel, 2)
	s.verifyRetained(ts.changeOps > 0)
}

// sideBranch derives an un-notified transaction from a retained older version.
func (s *sim) sideBranch(t int) {
	if len(s.versions) == 0 {
		return
	}
	v := s.versions[s.rng.IntN(len(s.versions))]
	// (clones of open transactions are Tree values too: transactions derived from them must leave them and everything else intact)
	what := fmt.Sprintf("t%d side(%s)", t, v.name)
	before := s.closedSet()
	txn := v.tree.Txn()
	tm := cloneModel(v.model)
	ts := &txnState{touched: map[string]bool{}}
	s.runOps(what, txn, tm, ts)
	if s.failed {
		return
	}
	if s.rng.IntN(4) == 0 {
		s.logf("%s abandon", what)
	} else {
		s.logf("%s commit (no notify)", what)
		nt := txn.Commit()
		s.verifyOps(what+" result", &nt, tm, 3)
		s.retainVersion(what, nt, tm)
	}
	s.noNewCloses(before, "side-branch")
	s.verifyOps("cur after "+what, &s.cur, s.curModel, 2)
	s.verifyRetained(ts.changeOps > 0)
}
