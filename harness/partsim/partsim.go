// Package partsim drives random histories against part.Tree and checks them against a sorted-map
// model (C11: contents + persistence of every retained version/clone/iterator) and a watch-channel
// oracle (C12: must-close / must-stay-open sets at every Notify).
package partsim

import (
	"bytes"
	"fmt"
	"math/rand/v2"
	"sort"

	"github.com/cilium/statedb/part"

	"verifharness/vkit"
)

type Opts struct {
	RootOnly      bool
	CheckContents bool // report C11 violations
	CheckWatches  bool // report C12 violations
	LongKeys      bool // most keys start with one of a few long stems (hundreds to thousands of bytes)
	Txns          int  // number of transactions per history
	MaxOps        int  // max operations per transaction
}

type entry struct {
	K string
	V uint64
}

type version struct {
	clone bool // a Txn.Clone() (read-only use)
	name  string
	tree  part.Tree[uint64]
	model map[string]uint64 // frozen
}

type retIter struct {
	name string
	it   part.Iterator[uint64]
	rest []entry
}

type watch struct {
	ch      <-chan struct{}
	kind    string // root, get, prefix, insertwatch
	key     string
	origin  string
	mustBy  bool // must already be closed (verdict given), dropped afterwards
	fresh   bool // obtained from a query inside the transaction that is still open
	pending bool // insertwatch: key changed again inside the current txn, must be closed after its Notify
}

type sim struct {
	r     *vkit.Run
	idx   int
	rng   *rand.Rand
	o     Opts
	alph  []byte
	maxL  int
	stems [][]byte

	cur      part.Tree[uint64]
	curModel map[string]uint64
	nextVal  uint64

	versions []*version
	iters    []*retIter
	watches  []*watch

	fp         *vkit.Hash64
	log        []string
	persistChk int // retained objects re-verified after a later change
	watchJudge int // channels judged (must-close or must-open) at a Notify
	failed     bool
	noteCommit int
}

func isClosed(ch <-chan struct{}) bool {
	select {
	case <-ch:
		return true
	default:
		return false
	}
}

func sortedEntries(m map[string]uint64) []entry {
	out := make([]entry, 0, len(m))
	for k, v := range m {
		out = append(out, entry{k, v})
	}
	sort.Slice(out, func(i, j int) bool { return out[i].K < out[j].K })
	return out
}

func cloneModel(m map[string]uint64) map[string]uint64 {
	c := make(map[string]uint64, len(m))
	for k, v := range m {
		c[k] = v
	}
	return c
}

func (s *sim) logf(f string, a ...any) {
	s.log = append(s.log, fmt.Sprintf(f, a...))
	s.fp.Str(s.log[len(s.log)-1])
}

func (s *sim) violate(contents bool, key string, f string, a ...any) {
	if contents && !s.o.CheckContents || !contents && !s.o.CheckWatches {
		return
	}
	if s.failed {
		return
	}
	s.failed = true
	msg := fmt.Sprintf(f, a...)
	tail := s.log
	if len(tail) > 400 {
		tail = tail[len(tail)-400:]
	}
	s.r.Violation(key, s.idx, map[string]any{"message": msg, "rootOnly": s.o.RootOnly, "history": tail})
}

func (s *sim) genKey() []byte {
	k := s.genShortKey()
	if len(s.stems) > 0 && s.rng.IntN(10) < 7 && (len(k) == 0 || k[0] != 'x') {
		// long compressed paths: stem + short key (existing long keys are reused through genShortKey's "existing key" branch)
		return append(bytes.Clone(s.stems[s.rng.IntN(len(s.stems))]), k...)
	}
	return k
}

func (s *sim) genShortKey() []byte {
	// mixture: existing key, prefix/extension of existing key, random key
	if len(s.curModel) > 0 && s.rng.IntN(100) < 55 {
		keys := sortedEntries(s.curModel)
		k := []byte(keys[s.rng.IntN(len(keys))].K)
		switch s.rng.IntN(4) {
		case 0:
			return k
		case 1:
			return k[:s.rng.IntN(len(k)+1)]
		case 2:
			if len(k) < s.maxL {
				return append(bytes.Clone(k), s.alph[s.rng.IntN(len(s.alph))])
			}
			return k
		default:
			if len(k) > 0 {
				k2 := bytes.Clone(k)
				k2[len(k2)-1] = s.alph[s.rng.IntN(len(s.alph))]
				return k2
			}
			return k
		}
	}
	n := s.rng.IntN(s.maxL + 1)
	k := make([]byte, n)
	for i := range k {
		k[i] = s.alph[s.rng.IntN(len(s.alph))]
	}
	return k
}

func collect(it part.Iterator[uint64]) []entry {
	var out []entry
	it.All(func(k []byte, v uint64) bool {
		out = append(out, entry{string(k), v})
		return true
	})
	return out
}

func eqEntries(a, b []entry) bool {
	if len(a) != len(b) {
		return false
	}
	for i := range a {
		if a[i] != b[i] {
			return false
		}
	}
	return true
}

func expectPrefix(all []entry, p string) []entry {
	var out []entry
	for _, e := range all {
		if len(e.K) >= len(p) && e.K[:len(p)] == p {
			out = append(out, e)
		}
	}
	return out
}

func expectLower(all []entry, k string) []entry {
	i := sort.Search(len(all), func(i int) bool { return all[i].K >= k })
	return append([]entry(nil), all[i:]...)
}

func fmtEntries(es []entry) string {
	var b bytes.Buffer
	for i, e := range es {
		if i > 0 {
			b.WriteByte(' ')
		}
		fmt.Fprintf(&b, "%x=%d", e.K, e.V)
		if i > 40 {
			b.WriteString(" ...")
			break
		}
	}
	return b.String()
}

// verifyOps checks all read operations of a Tree/Txn/Clone against a model.
func (s *sim) verifyOps(what string, ops part.Ops[uint64], model map[string]uint64, probes int) {
	all := sortedEntries(model)
	if ops.Len() != len(all) {
		s.violate(true, "contents/len", "%s: Len()=%d want %d", what, ops.Len(), len(all))
		return
	}
	if got := collect(ops.Iterator()); !eqEntries(got, all) {
		s.violate(true, "contents/iterate", "%s: Iterator: got [%s] want [%s]", what, fmtEntries(got), fmtEntries(all))
		return
	}
	for i := 0; i < probes; i++ {
		k := s.genKey()
		v, _, ok := ops.Get(k)
		mv, mok := model[string(k)]
		if ok != mok || (ok && v != mv) {
			s.violate(true, "contents/get", "%s: Get(%x)=(%d,%v) want (%d,%v)", what, k, v, ok, mv, mok)
			return
		}
		it, _ := ops.Prefix(k)
		if got, want := collect(it), expectPrefix(all, string(k)); !eqEntries(got, want) {
			s.violate(true, "contents/prefix", "%s: Prefix(%x): got [%s] want [%s]", what, k, fmtEntries(got), fmtEntries(want))
			return
		}
		if got, want := collect(ops.LowerBound(k)), expectLower(all, string(k)); !eqEntries(got, want) {
			s.violate(true, "contents/lowerbound", "%s: LowerBound(%x): got [%s] want [%s]", what, k, fmtEntries(got), fmtEntries(want))
			return
		}
	}
}

// verifyRetained re-verifies every retained version and iterator.
func (s *sim) verifyRetained(afterChange bool) {
	for _, v := range s.versions {
		s.verifyOps("retained "+v.name, &v.tree, v.model, 2)
		if tAll := collectAll(&v.tree); !eqEntries(tAll, sortedEntries(v.model)) {
			s.violate(true, "contents/all", "retained %s: All differs", v.name)
		}
		if afterChange {
			s.persistChk++
		}
	}
	for _, it := range s.iters {
		got := collect(it.it)
		if !eqEntries(got, it.rest) {
			s.violate(true, "persistence/iterator", "retained iterator %s: got [%s] want [%s]", it.name, fmtEntries(got), fmtEntries(it.rest))
		}
		if afterChange {
			s.persistChk++
		}
		// sometimes consume with Next
		if len(it.rest) > 0 && s.rng.IntN(4) == 0 {
			k, v, ok := it.it.Next()
			if !ok || string(k) != it.rest[0].K || v != it.rest[0].V {
				s.violate(true, "persistence/iterator-next", "retained iterator %s: Next()=(%x,%d,%v) want %x=%d", it.name, k, v, ok, it.rest[0].K, it.rest[0].V)
			}
			it.rest = it.rest[1:]
		} else if len(it.rest) == 0 && s.rng.IntN(4) == 0 {
			if _, _, ok := it.it.Next(); ok {
				s.violate(true, "persistence/iterator-next", "retained iterator %s: Next() ok on exhausted iterator", it.name)
			}
		}
	}
}

func collectAll(t *part.Tree[uint64]) []entry {
	var out []entry
	t.All(func(k []byte, v uint64) bool {
		out = append(out, entry{string(k), v})
		return true
	})
	return out
}

func (s *sim) retainVersion(name string, t part.Tree[uint64], m map[string]uint64, clone ...bool) {
	v := &version{name: name, tree: t, model: cloneModel(m), clone: len(clone) > 0}
	if len(s.versions) < 12 {
		s.versions = append(s.versions, v)
	} else {
		s.versions[s.rng.IntN(len(s.versions))] = v
	}
}

func (s *sim) retainIter(name string, it part.Iterator[uint64], rest []entry) {
	r := &retIter{name: name, it: it, rest: rest}
	if len(s.iters) < 10 {
		s.iters = append(s.iters, r)
	} else {
		s.iters[s.rng.IntN(len(s.iters))] = r
	}
}

func (s *sim) retainWatch(w *watch) {
	if isClosed(w.ch) {
		s.violate(false, "watch/closed-at-handout/"+w.kind, "%s channel for %x closed when handed out (%s)", w.kind, w.key, w.origin)
		return
	}
	if len(s.watches) < 80 {
		s.watches = append(s.watches, w)
	} else {
		i := s.rng.IntN(len(s.watches))
		if !s.watches[i].pending {
			s.watches[i] = w
		}
	}
}

// closedSet snapshots which retained channels are closed.
func (s *sim) closedSet() map[*watch]bool {
	m := make(map[*watch]bool, len(s.watches))
	for _, w := range s.watches {
		m[w] = isClosed(w.ch)
	}
	return m
}

// noNewCloses asserts that no retained channel closed since the snapshot.
func (s *sim) noNewCloses(before map[*watch]bool, when string) {
	for _, w := range s.watches {
		if c, ok := before[w]; ok && !c && isClosed(w.ch) {
			s.violate(false, "watch/closed-outside-notify/"+when+"/"+w.kind, "%s channel for %x (%s) closed %s", w.kind, w.key, w.origin, when)
			return
		}
	}
}

// txnState tracks what a transaction did, for the watch oracle.
type txnState struct {
	changeOps int             // successful insert/modify/delete operations
	touched   map[string]bool // keys with a successful insert/modify/delete
	main      bool            // transaction on the notified main lineage
}

func (s *sim) noteKeyChange(ts *txnState, k string) {
	ts.changeOps++
	ts.touched[k] = true
	if !ts.main {
		return
	}
	for _, w := range s.watches {
		if w.kind == "insertwatch" && w.key == k && !w.mustBy {
			w.pending = true
		}
	}
}

// judgeAfterNotify applies the must-close / must-stay-open rules after Notify of a transaction on the main lineage.
func (s *sim) judgeAfterNotify(ts *txnState, prevRoot <-chan struct{}, before map[*watch]bool, what string) {
	// root watch of the previous tree: exact
	s.watchJudge++
	if ts.changeOps > 0 && !isClosed(prevRoot) {
		s.violate(false, "watch/root-not-closed", "%s: previous root watch open although %d change ops", what, ts.changeOps)
	}
	if ts.changeOps == 0 && isClosed(prevRoot) {
		s.violate(false, "watch/root-closed-without-change", "%s: previous root watch closed although nothing changed", what)
	}
	keep := s.watches[:0]
	for _, w := range s.watches {
		must := false
		switch w.kind {
		case "root":
			must = ts.changeOps > 0
			if ts.changeOps == 0 && !before[w] && isClosed(w.ch) {
				s.violate(false, "watch/root-closed-without-change", "%s: retained root watch (%s) closed although nothing changed", what, w.origin)
			}
		case "get":
			must = ts.touched[w.key]
		case "prefix":
			for k := range ts.touched {
				if len(k) >= len(w.key) && k[:len(w.key)] == w.key {
					must = true
					break
				}
			}
		case "insertwatch":
			must = w.pending
		}
		if w.fresh {
			// Obtained from a Get/Prefix query inside this very transaction: held only to later transactions
			// (a node created and then edited in place by the same transaction legitimately keeps its channel).
			w.fresh = false
			if w.kind == "get" || w.kind == "prefix" {
				must = false
			}
		}
		if must {
			s.watchJudge++
			if !isClosed(w.ch) {
				s.violate(false, "watch/not-closed/"+w.kind, "%s: %s channel for %x (%s) still open after Notify; touched=%v", what, w.kind, w.key, w.origin, keysOf(ts.touched))
			}
			continue // verdict given; drop
		}
		if isClosed(w.ch) {
			continue // spuriously closed (allowed for get/prefix); drop
		}
		keep = append(keep, w)
	}
	s.watches = keep
}

func keysOf(m map[string]bool) []string {
	var out []string
	for k := range m {
		out = append(out, fmt.Sprintf("%x", k))
	}
	sort.Strings(out)
	return out
}
