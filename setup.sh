#!/bin/bash
# Offline setup: warm the Go build cache for the harness (plain and -race builds) from files on disk only.
set -e
cd "$(dirname "$0")"
. ./env.sh
cd harness
go vet -tags verif ./vkit >/dev/null
pkgs=$(ls -d c[0-9][0-9] 2>/dev/null | sed 's|^|./|')
go test -tags verif -vet=off -count=1 -run '^$' $pkgs >/dev/null
racepkgs=$(grep -l '^func TestVerifRace_' c[0-9][0-9]/*_test.go 2>/dev/null | xargs -r -n1 dirname | sort -u | sed 's|^|./|')
if [ -n "$racepkgs" ]; then go test -race -tags verif -vet=off -count=1 -run '^$' $racepkgs >/dev/null; fi
echo "setup ok"
