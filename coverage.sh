#!/bin/bash
# Statement coverage of cilium/statedb reached by the harness (a map of what the monitors can observe at all;
# not a check, not evidence). usage: ./coverage.sh [tier] [outdir]   -> <outdir>/func.txt, <outdir>/merged.out
set -u
cd "$(dirname "$0")"
. ./env.sh
tier=${1:-quick}
out=${2:-/var/tmp/verif-cov}
mkdir -p "$out"
cd harness
for p in c[0-9][0-9]; do
  (
    VERIF_SEED=${VERIF_SEED:-1} VERIF_TIER=$tier VERIF_ROOT="$out/root" VERIF_COVERAGE=1 \
      go test -tags verif -vet=off -count=1 -timeout 60m -coverpkg=github.com/cilium/statedb/... \
      -coverprofile="$out/$p.out" ./$p >"$out/$p.log" 2>&1
    echo "$p rc=$?"
  ) &
  while [ "$(jobs -r | wc -l)" -ge 6 ]; do sleep 1; done
done
wait
{
  echo "mode: set"
  cat "$out"/c[0-9][0-9].out | grep -v '^mode:' | sort -k1,1 -k3,3nr | awk '{k=$1" "$2; if (!(k in s)) {s[k]=$3; o[n++]=k} else if ($3>s[k]) s[k]=$3} END {for (i=0;i<n;i++) print o[i], s[o[i]]}'
} > "$out/merged.out"
go tool cover -func="$out/merged.out" > "$out/func.txt"
tail -1 "$out/func.txt"
