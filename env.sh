# Sourced by every script: offline Go toolchain for cilium/statedb (needs go 1.25).
export PATH=/root/go/pkg/mod/golang.org/toolchain@v0.0.1-go1.25.0.linux-amd64/bin:$PATH
export GOTOOLCHAIN=local GOSUMDB=off GOFLAGS=-mod=mod GOPROXY=off
export GOCACHE=${GOCACHE:-/root/.cache/go-build}
