#!/opt/veriftools/pyvenv/bin/python
import json, jsonschema, glob, sys
m = json.load(open('/verif/MANIFEST.json'))
jsonschema.validate(m, json.load(open('/root/.vp/MANIFEST.schema.json')))
es = json.load(open('/root/.vp/EVIDENCE.schema.json'))
bad = 0
for c in m['checks']:
    try:
        e = json.load(open(c['evidence_file']))
        jsonschema.validate(e, es)
        assert e['level'] == c['level_claimed']['category'], "level mismatch"
    except Exception as ex:
        bad += 1
        print("BAD", c['property_id'], str(ex)[:200])
props = [json.loads(l)['id'] for l in open('/verif/properties.jsonl')]
claimed = {c['property_id'] for c in m['checks']} | {n['property_id'] for n in m.get('not_applicable', [])}
assert set(props) == claimed, set(props) ^ claimed
print("manifest valid;", len(m['checks']), "checks;", bad, "bad evidence files")
sys.exit(1 if bad else 0)
