#!/usr/bin/env python3
"""Writes seeded/RESULTS.md from seeded/*/meta.json (which checks caught which seeded change)."""
import json, glob, os, re
rows = []
for f in sorted(glob.glob('/verif/seeded/*/meta.json')):
    d = json.load(open(f))
    patch = open(os.path.join(os.path.dirname(f), 'patch.diff')).read()
    files = sorted(set(re.findall(r'^\+\+\+ b/(\S+)', patch, re.M)))
    notes = os.path.join(os.path.dirname(f), 'NOTES.md')
    title = ''
    if os.path.exists(notes):
        for l in open(notes):
            l = l.strip('# \n')
            if l:
                title = l[:110]
                break
    caught = [f"{c} ({', '.join(v['violation_keys'][:2])})" for c, v in d['checks'].items() if v['detected']]
    missed = [c for c, v in d['checks'].items() if not v['detected']]
    rows.append((d['id'], d['breaks_property'], ', '.join(files), title, '; '.join(caught) or '-', ', '.join(missed) or '-'))
out = ["# Seeded changes and which checks catch them", "",
       "Each change was produced by a sub-agent that saw only the property text and a scratch worktree, and was confirmed here (demo passes on the unchanged tree, fails with the change; the existing suite passes with the change) by `seedconfirm.py` before being kept.",
       "`quick` tier, seed 1, run against a scratch worktree with the change applied (`VERIF_REPO`).", "",
       "| id | property | files | change | caught by (first violation keys) | checks run that did not alarm |", "|---|---|---|---|---|---|"]
for r in rows:
    out.append("| " + " | ".join(x.replace('|', '/') for x in r) + " |")
open('/verif/seeded/RESULTS.md', 'w').write("\n".join(out) + "\n")
print("\n".join(out[5:]))
